//! Corpus of Quiver sources harvested from the repository: the standard library, every plain
//! string literal passed to `evaluate(` / `then_evaluate(` in the test suite, the fenced examples
//! of docs/spec.md, and examples/.

use std::path::Path;

#[derive(Clone, Debug)]
pub struct Source {
    pub origin: String,
    pub text: String,
    /// Sources from one test chain (`evaluate(..).then_evaluate(..)`) share a group id and are
    /// meant to be evaluated in order in one session.
    pub group: usize,
    pub needs_io: bool,
}

#[derive(Default, Debug, Clone)]
pub struct CorpusStats {
    pub test_literals: usize,
    pub skipped_format_templates: usize,
    pub spec_blocks: usize,
    pub std_modules: usize,
    pub examples: usize,
}

/// Scan Rust source text for `evaluate(` / `then_evaluate(` calls whose argument is a plain string
/// literal (`"..."`, `r"..."`, `r#"..."#`). `format!` templates and non-literal arguments are skipped
/// and counted.
pub fn scan_rust_literals(text: &str, origin: &str, out: &mut Vec<Source>, stats: &mut CorpusStats, group: &mut usize) {
    let bytes = text.as_bytes();
    let mut i = 0;
    let needle = b"evaluate(";
    while i + needle.len() <= bytes.len() {
        if &bytes[i..i + needle.len()] != needle {
            i += 1;
            continue;
        }
        let is_then = i >= 5 && &bytes[i - 5..i] == b"then_";
        // skip the definitions in common.rs: `fn evaluate(`
        let is_def = i >= 3 && &bytes[i - 3..i] == b"fn ";
        let mut j = i + needle.len();
        i = j;
        if is_def {
            continue;
        }
        while j < bytes.len() && (bytes[j] as char).is_whitespace() {
            j += 1;
        }
        if j >= bytes.len() {
            break;
        }
        let lit = parse_rust_string(text, j);
        match lit {
            Some((s, _end)) => {
                if !is_then {
                    *group += 1;
                }
                let line = text[..j].matches('\n').count() + 1;
                out.push(Source {
                    origin: format!("{}:{}", origin, line),
                    text: s,
                    group: *group,
                    needs_io: false,
                });
                stats.test_literals += 1;
            }
            None => {
                if !is_then {
                    *group += 1;
                }
                stats.skipped_format_templates += 1;
            }
        }
    }
}

/// Parse a Rust string literal starting at byte offset `at`; returns (value, end offset).
fn parse_rust_string(text: &str, at: usize) -> Option<(String, usize)> {
    let b = text.as_bytes();
    if b[at] == b'"' {
        // normal string with escapes
        let mut out = String::new();
        let mut i = at + 1;
        let chars: Vec<char> = text[i..].chars().collect();
        let mut k = 0;
        while k < chars.len() {
            let c = chars[k];
            match c {
                '"' => {
                    i += 1;
                    return Some((out, i));
                }
                '\\' => {
                    k += 1;
                    let e = *chars.get(k)?;
                    match e {
                        'n' => out.push('\n'),
                        't' => out.push('\t'),
                        'r' => out.push('\r'),
                        '0' => out.push('\0'),
                        '\\' => out.push('\\'),
                        '"' => out.push('"'),
                        '\'' => out.push('\''),
                        '\n' => {
                            // line continuation: skip leading whitespace of the next line
                            while k + 1 < chars.len() && chars[k + 1].is_whitespace() {
                                k += 1;
                            }
                        }
                        'x' => {
                            let h: String = chars.get(k + 1..k + 3)?.iter().collect();
                            out.push(u8::from_str_radix(&h, 16).ok()? as char);
                            k += 2;
                        }
                        'u' => {
                            // \u{...}
                            let mut m = k + 2;
                            let mut h = String::new();
                            while *chars.get(m)? != '}' {
                                h.push(chars[m]);
                                m += 1;
                            }
                            out.push(char::from_u32(u32::from_str_radix(&h, 16).ok()?)?);
                            k = m;
                        }
                        _ => return None,
                    }
                }
                _ => out.push(c),
            }
            i += c.len_utf8();
            k += 1;
        }
        None
    } else if b[at] == b'r' {
        let mut hashes = 0;
        let mut i = at + 1;
        while i < b.len() && b[i] == b'#' {
            hashes += 1;
            i += 1;
        }
        if i >= b.len() || b[i] != b'"' {
            return None;
        }
        i += 1;
        let close: String = std::iter::once('"').chain(std::iter::repeat('#').take(hashes)).collect();
        let rest = &text[i..];
        let end = rest.find(&close)?;
        Some((rest[..end].to_string(), i + end + close.len()))
    } else {
        None
    }
}

pub fn spec_blocks(spec: &str) -> Vec<String> {
    let mut out = vec![];
    let mut cur: Option<String> = None;
    for line in spec.lines() {
        if let Some(c) = cur.as_mut() {
            if line.trim_start().starts_with("```") {
                out.push(cur.take().unwrap());
            } else {
                c.push_str(line);
                c.push('\n');
            }
        } else if line.trim_start().starts_with("```quiver") {
            cur = Some(String::new());
        }
    }
    out
}

pub fn load(repo: &Path) -> (Vec<Source>, CorpusStats) {
    let mut out = vec![];
    let mut stats = CorpusStats::default();
    let mut group = 0usize;
    // std modules: import each one
    if let Ok(rd) = std::fs::read_dir(repo.join("std")) {
        let mut names: Vec<String> = rd
            .filter_map(|e| e.ok())
            .filter_map(|e| e.file_name().to_str().map(|s| s.to_string()))
            .filter(|n| n.ends_with(".qv"))
            .collect();
        names.sort();
        for n in names {
            group += 1;
            let m = n.trim_end_matches(".qv");
            out.push(Source {
                origin: format!("std/{}", n),
                text: format!("%{}", m),
                group,
                needs_io: matches!(m, "file" | "fs" | "dns"),
            });
            stats.std_modules += 1;
        }
    }
    // test suite
    let tests = repo.join("quiver-tests/tests");
    if let Ok(rd) = std::fs::read_dir(&tests) {
        let mut files: Vec<_> = rd.filter_map(|e| e.ok()).map(|e| e.path()).collect();
        files.sort();
        for f in files {
            let name = f.file_name().and_then(|s| s.to_str()).unwrap_or("").to_string();
            if !name.ends_with(".rs") || name == "common.rs" || name.starts_with("zz") {
                continue;
            }
            if let Ok(text) = std::fs::read_to_string(&f) {
                let before = out.len();
                scan_rust_literals(&text, &format!("tests/{}", name), &mut out, &mut stats, &mut group);
                let io = matches!(name.as_str(), "files.rs" | "sockets.rs");
                for s in &mut out[before..] {
                    s.needs_io = io;
                }
            }
        }
    }
    // spec examples
    if let Ok(spec) = std::fs::read_to_string(repo.join("docs/spec.md")) {
        for (i, b) in spec_blocks(&spec).into_iter().enumerate() {
            group += 1;
            out.push(Source {
                origin: format!("docs/spec.md#block{}", i),
                text: b,
                group,
                needs_io: false,
            });
            stats.spec_blocks += 1;
        }
    }
    if let Ok(rd) = std::fs::read_dir(repo.join("examples")) {
        for e in rd.filter_map(|e| e.ok()) {
            if let Ok(text) = std::fs::read_to_string(e.path()) {
                group += 1;
                out.push(Source {
                    origin: format!("examples/{}", e.file_name().to_string_lossy()),
                    text,
                    group,
                    needs_io: false,
                });
                stats.examples += 1;
            }
        }
    }
    (out, stats)
}
