//! C01 — type soundness: accepted programs never get stuck on a type error, and a produced
//! value inhabits the inferred result type (Engine B).

use crate::infra::{Budget, Report, Tier, Violation};
use crate::progen;
use crate::qcompile;
use crate::runsync::{self, Run};
use crate::typemember::{self, Tri};
use rayon::prelude::*;
use serde_json::{Value as J, json};
use std::collections::BTreeMap;

/// Typed contexts: a function over a union / partial / tuple / generic parameter whose body is the
/// hole, applied to every inhabitant listed. `{}` = hole, `@` = argument.
const TYPED_CONTEXTS: &[(&str, &[&str])] = &[
    ("'u = A['int] | B\nf = #'u { {} }, @ f", &["A[1]", "B"]),
    ("'u = A['int] | B\nf = #'u { =B => 0 | {} }, @ f", &["A[1]", "B"]),
    ("'u = A['int] | B\nf = #'u { =A[b] => b | {} }, @ f", &["A[1]", "B"]),
    ("f = #('int | []) { {} }, @ f", &["1", "[]"]),
    ("f = #('int | []) { =[] => 0 | {} }, @ f", &["1", "[]"]),
    ("f = #('int | 'bin) { {} }, @ f", &["1", "0x01"]),
    ("f = #('int | 'bin) { ='bin => 0 | {} }, @ f", &["1", "0x01"]),
    ("f = #('int | 'bin) { =('int)b => b | {} }, @ f", &["1", "0x01"]),
    ("f = #(x: 'int) { {} }, @ f", &["[x: 1]", "[x: 1, y: 0x01]", "A[y: 2, x: 1]"]),
    ("f = #['int, ('int | 'bin)] { {} }, @ f", &["[1, 2]", "[1, 0x01]"]),
    ("f = #['int, ('int | 'bin)] { =[a, ('int)b] => [a, b] __integer_add__ | {} }, @ f", &["[1, 2]", "[1, 0x01]"]),
    ("f = #<'t>['int, 't] { {} }, @ f", &["[1, 2]", "[1, 0x01]", "[1, A]"]),
    ("'l = Nil | Cons['int, ^]\nf = #'l { {} }, @ f", &["Nil", "Cons[1, Nil]", "Cons[1, Cons[2, Nil]]"]),
    ("'l = Nil | Cons['int, ^]\nf = #'l { =Nil => 0 | {} }, @ f", &["Nil", "Cons[1, Nil]"]),
    ("f = #'int { =0 => 5 | {} }, @ f", &["0", "1", "2"]),
    ("g = #'int { [~, 1] __integer_add__ }, f = #'int { =0 => 5 | {} }, @ f", &["0", "1"]),
    ("f = #'int -> 'int { {} }, @ f", &["1"]),
    ("f = #'int -> ('int | []) { {} }, @ f", &["1"]),
    ("a = @ { =0 => 0x01 | 1 }, {}", &["0", "1"]),
    ("a = @ { =0 => A[1] | B }, {}", &["0", "1"]),
    ("a = @ { =0 => A[1] | B }, a { {} }", &["0", "1"]),
    // a sequence whose early step can be nil, followed by a never-nil step and a last step
    ("g = #'int { =0 => [] | 7 }, f = #'int { $ g, 5, {} }, @ f", &["0", "1"]),
    ("g = #'int { =0 => [] | 7 }, f = #'int { $ g, 5, 6 => {} | 8 }, @ f", &["0", "1"]),
    // a union with a variant that has no fields at all
    ("f = #('int | A[x: 'int]) { {} }, @ f", &["5", "A[x: 7]"]),
    // a runtime test against a partial type (through an alias) that a variant merely overlaps:
    // failing it must not exclude the variant from the later branches
    ("'r = (x: 'int)\nf = #(P[x: 'int | 'bin] | Q[y: 'int]) { ='r => 1 | {} }, @ f", &["P[x: 5]", "P[x: 0x00]", "Q[y: 9]"]),
    ("'r = (x: 'int)\nf = #(P[x: 'int | 'bin] | Q[y: 'int]) { {} }, @ f", &["P[x: 5]", "P[x: 0x00]", "Q[y: 9]"]),
];

/// Spread family: every tuple of 1..=3 elements drawn from spreads of three records whose fields
/// share names at different types and from explicit fields, read back whole and field by field
/// (the type of a field must follow the source its value comes from).
pub fn spread_programs() -> Vec<String> {
    const PRELUDE: &str = "a = A[x: 1, y: 2], b = [y: 0x03], d = [x: 0x04, z: 5], ";
    const ELEMS: &[&str] = &["...a", "...b", "...d", "x: 9", "y: 0x08", "z: A"];
    const USES: &[&str] = &["c", "c.x", "c.y", "c.z", "c.y { ='int => [~, 1] __integer_add__ | ='bin => 0 | 7 }"];
    let mut tuples: Vec<String> = vec![];
    for e1 in ELEMS {
        tuples.push(e1.to_string());
        for e2 in ELEMS {
            tuples.push(format!("{}, {}", e1, e2));
            for e3 in ELEMS {
                tuples.push(format!("{}, {}, {}", e1, e2, e3));
            }
        }
    }
    let mut out = vec![];
    for t in &tuples {
        for u in USES {
            out.push(format!("{}c = [{}], {}", PRELUDE, t, u));
        }
        // through a function boundary with a union-typed spread source
        out.push(format!("'tb = [y: 'bin] | [y: 'bin, z: 'int]\nf = #[a: [x: 'int, y: 'int], b: 'tb] {{ =[a: a, b: b] => d = [x: 0x04, z: 5], [{}] }}, [a: [x: 1, y: 2], b: [y: 0x07, z: 9]] f .y", t));
    }
    out
}
const _UNUSED: &[(&str, &[&str])] = &[
];

/// Cores used inside the typed contexts in addition to the generic grammar: uses that are only
/// legal at a narrowed type, tail calls with every argument kind, dispatch through `g`.
const TYPED_ATOMS: &[&str] = &[
    "[~, 1] __integer_add__", "[a, 1] __integer_add__", "[b, 1] __integer_add__", "[$, 1] __integer_add__",
    "[.0, 1] __integer_add__", "[.1, 1] __integer_add__", "[.x, 1] __integer_add__", "[$0, $1] __integer_add__",
    "[~, 0x01] __binary_concat__", "[a, 0x01] __binary_concat__", "[b, b] __binary_concat__",
    "^", "0x01 ^", "[] ^", "A[1] ^", "1 ^", "~ g", "a g", "0x01 ^g", "1 ^g", "~ ^g", "[1, 2] ^",
    "=A[b]", "=A[b] b", "=B", "=('int)b", "=('int)b b", "=('bin)b", "=('bin)b b", "=[a, b]", "=[a, ('int)b]",
    "=(x)", "=(x: ('int)b)", "=Cons[a, b]", "=Cons[a, b] a", "=Cons[a, b] b", "=Nil", ".0", ".1", ".x", ".y", "$", "~", "a", "b",
    "='int", "='bin", "=[]", "=0", "=1", "a .0", "a =A[b] b", "a =('bin)b [b, b] __binary_concat__",
    // destructuring of the variants of the partial-alias context
    "=Q[y: b]", "=P[x: b]", "=P[x: b] b",
];

#[derive(Default)]
struct Acc {
    total: u64,
    rejected: u64,
    accepted: u64,
    values: u64,
    member_yes: u64,
    member_unknown: u64,
    domain_errors: u64,
    budget: u64,
    needs_runtime: u64,
    distinct_result_types: std::collections::BTreeSet<String>,
    violations: Vec<(String, String, String)>, // (kind, source, detail)
    samples: Vec<J>,
}

impl Acc {
    fn merge(&mut self, o: Acc) {
        self.total += o.total;
        self.rejected += o.rejected;
        self.accepted += o.accepted;
        self.values += o.values;
        self.member_yes += o.member_yes;
        self.member_unknown += o.member_unknown;
        self.domain_errors += o.domain_errors;
        self.budget += o.budget;
        self.needs_runtime += o.needs_runtime;
        self.distinct_result_types.extend(o.distinct_result_types);
        self.violations.extend(o.violations);
        if self.samples.len() < 5 {
            self.samples.extend(o.samples);
            self.samples.truncate(5);
        }
    }
}

pub enum Verdict {
    Rejected,
    Value { member: Tri, ty: String, value: String },
    DomainError(String),
    Budget,
    NeedsRuntime,
    /// kind: "stuck" | "panic" | "not-member"
    Unsound { kind: &'static str, detail: String },
}

pub fn judge(source: &str) -> Verdict {
    let builtins = qcompile::core_builtins();
    let unit = match std::panic::catch_unwind(|| qcompile::compile(source, &builtins)) {
        Ok(Ok(u)) => u,
        _ => return Verdict::Rejected,
    };
    let ty = quiver_core::format::format_type_by_id(&unit.program, unit.result_type);
    match runsync::run(unit.bytecode(), &builtins, 200, false) {
        Run::Budget => Verdict::Budget,
        Run::NeedsRuntime => Verdict::NeedsRuntime,
        Run::Panic(p) => Verdict::Unsound {
            kind: "panic",
            detail: format!("accepted at type {} but execution panicked: {}", ty, p),
        },
        Run::Error(e) => {
            if runsync::is_stuck_state(&e) {
                Verdict::Unsound {
                    kind: "stuck",
                    detail: format!("accepted at type {} but execution ended in the VM-level failure {:?}", ty, e),
                }
            } else {
                Verdict::DomainError(format!("{:?}", e))
            }
        }
        Run::Value(v, ex) => {
            let m = typemember::is_member(&v, unit.result_type, &unit.program);
            let value = crate::c02::render_impl(&unit, &v, &ex);
            if m == Tri::No {
                Verdict::Unsound {
                    kind: "not-member",
                    detail: format!("produced {} which does not inhabit the inferred result type {}", value, ty),
                }
            } else {
                Verdict::Value { member: m, ty, value }
            }
        }
    }
}

fn tokens(src: &str) -> Vec<String> {
    let mut out = vec![];
    let mut cur = String::new();
    for ch in src.chars() {
        if ch.is_alphanumeric() || ch == '_' || ch == '\'' {
            cur.push(ch);
        } else {
            if !cur.is_empty() {
                out.push(std::mem::take(&mut cur));
            }
            out.push(ch.to_string());
        }
    }
    if !cur.is_empty() {
        out.push(cur);
    }
    out
}

/// Shrinking predicate (only sources outside every known-defect class are shrunk): still unsound
/// in the same way and still outside every class, so the shrinker cannot drift into a known one.
fn unsound(src: &str, kind: &str) -> bool {
    matches!(judge(src), Verdict::Unsound { kind: k, .. } if k == kind) && construct_class(src).is_none()
}

pub fn shrink(src: &str, kind: &str) -> String {
    let mut toks = tokens(src);
    let mut changed = true;
    while changed {
        changed = false;
        for w in (1..=4).rev() {
            let mut i = 0;
            while i + w <= toks.len() {
                let mut cand = toks.clone();
                cand.drain(i..i + w);
                let text: String = cand.concat();
                if !text.trim().is_empty() && unsound(&text, kind) {
                    toks = cand;
                    changed = true;
                } else {
                    i += 1;
                }
            }
        }
        let mut i = 0;
        'outer: while i < toks.len() {
            if toks[i] == "[" || toks[i] == "{" || toks[i] == "(" {
                for j in (i + 1..toks.len()).rev() {
                    if toks[j] == "]" || toks[j] == "}" || toks[j] == ")" {
                        let mut cand = toks.clone();
                        cand.remove(j);
                        cand.remove(i);
                        let text: String = cand.concat();
                        if !text.trim().is_empty() && unsound(&text, kind) {
                            toks = cand;
                            changed = true;
                            continue 'outer;
                        }
                    }
                }
            }
            i += 1;
        }
    }
    // canonicalise literals: replace each literal token by `0` where the violation persists
    for i in 0..toks.len() {
        if ["1", "2", "0x01", "A", "B", "Ok"].contains(&toks[i].as_str()) {
            let mut cand = toks.clone();
            cand[i] = "0".to_string();
            if unsound(&cand.concat(), kind) {
                toks = cand;
            }
        }
    }
    let mut i = 0;
    while i + 1 < toks.len() {
        if toks[i] == "\"" && toks[i + 1] == "\"" {
            let mut cand = toks.clone();
            cand[i] = "0".to_string();
            cand.remove(i + 1);
            if unsound(&cand.concat(), kind) {
                toks = cand;
            }
        }
        i += 1;
    }
    for i in 0..toks.len() {
        if toks[i] == "'int" {
            let mut cand = toks.clone();
            cand[i] = "'bin".to_string();
            if unsound(&cand.concat(), kind) {
                toks = cand;
            }
        }
    }
    let text: String = toks.concat();
    let lines: Vec<String> = text
        .lines()
        .map(|l| l.split_whitespace().collect::<Vec<_>>().join(" "))
        .filter(|l| !l.is_empty())
        .collect();
    lines.join(" ⏎ ")
}

/// Construct classes that carry a known language-level unsoundness (DESIGN.md 3.5 / 9): a
/// violation whose minimal core falls into one of them is identified by the class, not by the
/// (open-ended) core text. Decided on the AST of the core.
pub fn construct_class(core: &str) -> Option<&'static str> {
    use quiver_compiler::ast::*;
    let src = core.replace(" ⏎ ", "\n");
    let Ok(ast) = quiver_compiler::parse(&src) else {
        return None;
    };
    #[derive(Default)]
    struct Found {
        tail: bool,
        /// a tail call with something after it (a later term, a binding pattern, a later step,
        /// a consequence) or inside a tuple/string: what follows is typed after a `never`
        tail_nonfinal: bool,
        midchain: bool,
        bare_binder: bool,
        generic: bool,
        partial_param: bool,
    }
    fn has_binder(m: &Match) -> bool {
        match m {
            Match::Identifier(..) | Match::As(..) | Match::Star(_) => true,
            Match::Tuple(t) => t.fields.iter().any(|f| has_binder(&f.pattern)),
            Match::Partial(p) => p.fields.iter().any(|f| f.pattern.as_ref().map(has_binder).unwrap_or(true)),
            Match::Or(a) => a.iter().any(has_binder),
            _ => false,
        }
    }
    fn is_tail(t: &Term) -> bool {
        matches!(t, Term::Access(a) | Term::Reference(a)
            if matches!(a.source, Some(AccessSource::TailCall(_)) | Some(AccessSource::TailCallRipple)))
    }
    fn term_has_tail(t: &Term) -> bool {
        match t {
            _ if is_tail(t) => true,
            Term::Block(e) => expr_has_tail(e),
            Term::Tuple(tu) => tu.fields.iter().any(|fld| matches!(&fld.value, FieldValue::Chain(c) if chain_has_tail(c))),
            Term::String(_, segs) => segs.iter().any(|s| matches!(s, StrSegment::Hole(e) if expr_has_tail(e))),
            _ => false,
        }
    }
    fn chain_has_tail(c: &Chain) -> bool {
        c.terms.iter().any(term_has_tail)
    }
    fn seq_has_tail(s: &Sequence) -> bool {
        s.chains.iter().any(chain_has_tail)
    }
    fn expr_has_tail(e: &Expression) -> bool {
        e.branches.iter().any(|b| seq_has_tail(&b.condition) || b.consequence.as_ref().is_some_and(seq_has_tail))
    }
    fn expr(e: &Expression, f: &mut Found) {
        for b in &e.branches {
            seq(&b.condition, f);
            if let Some(c) = &b.consequence {
                if seq_has_tail(&b.condition) {
                    f.tail_nonfinal = true;
                }
                seq(c, f);
            }
        }
    }
    fn seq(s: &Sequence, f: &mut Found) {
        for (j, c) in s.chains.iter().enumerate() {
            if j + 1 < s.chains.len() && chain_has_tail(c) {
                f.tail_nonfinal = true;
            }
            chain(c, f);
        }
    }
    fn chain(c: &Chain, f: &mut Found) {
        if let Some(Match::Identifier(..) | Match::Star(_)) = &c.match_pattern {
            // `x = e`: a bare binding accepts a nil `e` (whether it did is decided dynamically,
            // by the reference run's "nil-accepted" event)
            f.bare_binder = true;
        }
        for (i, t) in c.terms.iter().enumerate() {
            if term_has_tail(t)
                && (i + 1 < c.terms.len() || c.match_pattern.is_some() || matches!(t, Term::Tuple(_) | Term::String(..)))
            {
                f.tail_nonfinal = true;
            }
            match t {
                Term::Match(m) => {
                    // the verdict of an in-chain match is consumed by a later term or by the
                    // chain's binding pattern (the compiler types what flows on as the matched value)
                    if i + 1 < c.terms.len() || c.match_pattern.is_some() {
                        f.midchain = true;
                    }
                    // patterns that accept nil: a bare binder, `_`, the nil test `[]`
                    let accepts_nil = match m {
                        Match::Identifier(..) | Match::Placeholder => true,
                        Match::Tuple(t) => t.name.is_none() && t.fields.is_empty(),
                        _ => false,
                    };
                    if accepts_nil {
                        f.bare_binder = true;
                    }
                }
                Term::Access(a) | Term::Reference(a) => {
                    if matches!(a.source, Some(AccessSource::TailCall(_)) | Some(AccessSource::TailCallRipple)) {
                        f.tail = true;
                    }
                }
                Term::Block(e) => expr(e, f),
                Term::Function(func) => {
                    if !func.type_parameters.is_empty() {
                        f.generic = true;
                    }
                    if matches!(&func.parameter_type, Some(Type::Tuple(tt)) if tt.is_partial) {
                        f.partial_param = true;
                    }
                    if let Some(b) = &func.body {
                        expr(b, f);
                    }
                }
                Term::Tuple(tu) => {
                    for fld in &tu.fields {
                        if let FieldValue::Chain(c2) = &fld.value {
                            chain(c2, f);
                        }
                    }
                }
                Term::String(_, segs) => {
                    for s in segs {
                        if let StrSegment::Hole(e) = s {
                            expr(e, f);
                        }
                    }
                }
                _ => {}
            }
        }
    }
    let mut f = Found::default();
    let mut recursive_alias = false;
    fn has_cycle(t: &Type) -> bool {
        match t {
            Type::Cycle(_) => true,
            Type::Tuple(tt) => tt.fields.iter().any(|f| match f {
                FieldType::Field { type_def, .. } => has_cycle(type_def),
                _ => false,
            }),
            Type::Union(u) => u.types.iter().any(has_cycle),
            Type::Function(ft) => has_cycle(&ft.input) || has_cycle(&ft.output),
            _ => false,
        }
    }
    for st in &ast.statements {
        match st {
            Statement::Expression(s) => seq(s, &mut f),
            Statement::TypeAlias { type_definition, .. } => {
                if has_cycle(type_definition) {
                    recursive_alias = true;
                }
            }
        }
    }
    // Static presence of the construct, in priority order, each with the dynamic event that
    // must have occurred in the reference evaluation for the construct to be able to explain a
    // wrong behaviour of this very program (None: not observable dynamically).
    let statics: Vec<(&'static str, Option<&'static str>)> = [
        (f.tail, "construct:tail-call", Some("tail")),
        (f.midchain, "construct:use-after-in-chain-match", Some("midchain")),
        (recursive_alias, "construct:recursive-type", None),
        (f.generic, "construct:generic-function", Some("generic")),
        (f.partial_param, "construct:partial-typed-parameter", Some("partial-param")),
        (f.bare_binder, "construct:nil-accepting-pattern", Some("nil-accepted")),
    ]
    .into_iter()
    .filter(|(present, _, _)| *present)
    .map(|(_, class, ev)| (class, ev))
    .collect();
    if statics.is_empty() {
        return None;
    }
    // A program that merely *contains* such a construct is not thereby excused: the construct
    // must have been exercised. The reference interpreter tells (when it can evaluate the program
    // at all; otherwise the static answer stands).
    let (res, mut events) = crate::refeval::evaluate_events(&src, 20_000);
    // The open finding about tail calls has two halves: the argument is never checked against the
    // target's parameter, and the call is typed `never`, so whatever follows it is mistyped. A
    // tail call in proper tail position whose argument certainly is of the written parameter type
    // ("tail-arg-ok") is an instance of neither; one with something after it is of the second.
    if f.tail_nonfinal && events.contains("tail-arg-ok") {
        events.insert("tail");
    }
    let reference_ran = matches!(res, Ok(_) | Err(crate::refeval::Stop::Error(_)));
    for (class, ev) in statics {
        match ev {
            // exercised (events recorded before the reference stopped or abstained are facts)
            Some(e) if events.contains(e) => return Some(class),
            // the reference ran to completion without exercising it
            Some(_) if reference_ran => continue,
            // incomplete reference run: nearly every program binds something, so without a nil
            // seen reaching a nil-accepting pattern this class explains nothing ...
            Some("nil-accepted") => continue,
            // ... for the others, and for classes without a dynamic event, the construct's
            // presence stands
            _ => return Some(class),
        }
    }
    None
}

fn handle(source: &str) -> Acc {
    let mut acc = Acc::default();
    acc.total = 1;
    match judge(source) {
        Verdict::Rejected => acc.rejected = 1,
        Verdict::Budget => {
            acc.accepted = 1;
            acc.budget = 1;
        }
        Verdict::NeedsRuntime => {
            acc.accepted = 1;
            acc.needs_runtime = 1;
        }
        Verdict::DomainError(_) => {
            acc.accepted = 1;
            acc.domain_errors = 1;
        }
        Verdict::Value { member, ty, value } => {
            acc.accepted = 1;
            acc.values = 1;
            match member {
                Tri::Yes => acc.member_yes = 1,
                _ => acc.member_unknown = 1,
            }
            if acc.samples.is_empty() && source.len() % 11 == 0 && source.contains("#") {
                acc.samples.push(json!({"source": source, "result_type": ty, "value": value}));
            }
            acc.distinct_result_types.insert(ty);
        }
        Verdict::Unsound { kind, detail } => {
            acc.accepted = 1;
            acc.violations.push((kind.to_string(), source.to_string(), detail));
        }
    }
    acc
}

/// Fixed probes for the holes named in the property text and DESIGN.md §9.
pub const PROBES: &[&str] = &[
    // tail-call argument is never checked against the target's parameter
    "g = #'int { [~, 1] __integer_add__ }, f = #'int { \"x\" ^g }, 3 f",
    "f = #'int { =0 => 5 | 0x01 ^ }, 1 f",
    // a union argument accepted for a non-union parameter position of a generic function
    "x = 2 { =2 => 0x00 | =1 => 5 }, id2 = #<'t>['int, 't] { [$0, 1] __integer_add__ }, [x, 9] id2",
    // the chain continues after a failed mid-chain match, but its binders/narrowings are typed as if it had succeeded
    "v = 1 { =0 => 0x00 | 1 }, v =('bin)x [x, x] __binary_concat__",
    "'l = Nil | Cons['int, ^]\nf = #'l { =Nil $ }, Cons[1, Nil] f",
    // a bare binder succeeds on nil, but the binding is narrowed to non-nil for the next step
    "f = #('int | []) { =a, [a, 1] __integer_add__ }, [] f",
    // partial types
    "f = #(x: 'int) { .x }, g = #A(x: 'int) { .x }, B[x: 1] f",
    "h = #(A(x: 'int) -> 'int) { =k => B[x: 1] k }",
    // statically failing condition on a nil parameter: the fall-through nil is missing from the result type
    "f = #{ ='bin => B }, f",
    // field access / spread on a recursive type yields a dangling cycle reference
    "'l = Nil | Cons['int, ^]\nf = #'l { =Nil | [0, $1] __integer_add__ }, Cons[1, Nil] f",
    "'l = Nil | Cons['int, ^]\nf = #'l { =Nil | [.1] }, Cons[1, Nil] f",
    "'l = Nil | Cons['int, ^]\nf = #'l { [...] }, Cons[1, Nil] f",
    // a failed branch pattern drops nil from the complement: the next branch loses its runtime test
    "f = #(A | B | []) { | =A => 1 | =B => 2 }, [] f",
    // alternatives of one pattern that bind different names
    "r = 1 { =0 => [z: 1, x: 2] | [z: 3, y: 4] }, * = r, [z, y, x]",
    "r = 0 { =0 => [z: 1, x: 2] | [z: 3, y: 4] }, * = r, [z, y, x]",
    // a closure that rebinds a variable whose member it also captures
    "p = A[x: 1], f = #'int { p = A[x: ~], p.x }, 5 f",
    // a dispatch branch that ends in a tail call
    "g = #(A | B) { | =A => 7 | =B => A ^ }, q = B g, q",
    // ... called with a union argument that overlaps the tail-call branch and a plain one: the
    // result type has to cover what the tail call reaches (three branches, results of three kinds)
    "g = #(A | B | C) { | =A => C ^ | =B => 7 | =C => W[w: 9] }, pick = #'int { | =0 => A | B }, r = 0 pick g, [r, 1] __integer_add__",
    "g = #(A | B | C) { | =A => C ^ | =B => 7 | =C => W[w: 9] }, pick = #'int { | =0 => A | B }, 0 pick g",
    "g = #(A | B | C) { | =A => 7 | =B => C ^ | =C => 0x01 }, pick = #'int { | =0 => A | B }, r = 1 pick g, [r, 1] __integer_add__",
    "g = #(A | B | C) { | =A => 0x01 | =B => 7 | =C => B ^ }, pick = #'int { | =0 => B | C }, r = 1 pick g, [r, 0x02] __binary_concat__",
    // repeated binders through a multi-variant nested pattern / driving the complement
    "f = #[(A['int] | A['bin]), 'int] { =[A[h], h] => h | 99 }, [[A[1], 2] f, [A[1], 1] f, [A[0x01], 1] f]",
    "'l = Nil | Cons['int, ^]\nf = #['l, 'int] { | =[Cons[h, t], h] => 1 | =[Cons[a, b], c] => 2 | 3 }, [[Cons[1, Nil], 2] f, [Cons[1, Nil], 1] f, [Nil, 1] f]",
    // a pin next to a binder of the same name
    "x = 1, [2, 1] =[x, &x], x",
    "x = 1, [2, 2] =[x, &x]",
    // well-typed tail calls must stay sound
    "f = #'int { =0 => 5 | [~, 1] __integer_subtract__ ^ }, 3 f",
    "g = #['int, 'int] { .0 }, f = #'int { [~, 1] ^g }, 3 f",
];

/// Typed-context programs only (used by C02 as an additional universe): quick = typed atoms and
/// one-node generic cores in every typed context instance; thorough = the full typed universe.
pub fn typed_programs(thorough: bool) -> Vec<String> {
    if thorough {
        let (all, meta) = universe(true);
        let typed = meta["typed_programs"].as_u64().unwrap_or(0) as usize;
        return all.into_iter().skip(PROBES.len()).take(typed).chain(PROBES.iter().map(|s| s.to_string())).collect();
    }
    let mut g = progen::Gen::default();
    let mut cores: Vec<String> = g.expr(1);
    cores.extend(TYPED_ATOMS.iter().map(|s| s.to_string()));
    for a in TYPED_ATOMS {
        for b in TYPED_ATOMS {
            cores.push(format!("{} => {}", a, b));
        }
    }
    let mut out: Vec<String> = PROBES.iter().map(|s| s.to_string()).collect();
    out.extend(spread_programs());
    for (ctx, args) in TYPED_CONTEXTS {
        for arg in *args {
            let c = ctx.replace('@', arg);
            for core in &cores {
                out.push(c.replacen("{}", core, 1));
            }
        }
    }
    out
}

pub fn universe(thorough: bool) -> (Vec<String>, J) {
    let mut g = progen::Gen::default();
    let core_nodes = if thorough { 3 } else { 2 };
    let mut cores: Vec<String> = vec![];
    for n in 1..=core_nodes {
        cores.extend(g.expr(n));
    }
    let generic_cores = cores.len();
    // typed atoms, alone and as the second step after each generic atom-sized core
    for a in TYPED_ATOMS {
        cores.push(a.to_string());
    }
    let atoms1 = g.expr(1);
    for a in TYPED_ATOMS {
        for b in TYPED_ATOMS {
            cores.push(format!("{}, {}", a, b));
            cores.push(format!("{} => {}", a, b));
            if thorough {
                cores.push(format!("{} | {}", a, b));
            }
        }
        for b in &atoms1 {
            cores.push(format!("{} => {}", a, b));
            if thorough {
                cores.push(format!("{}, {}", a, b));
                cores.push(format!("{} => {} | 0", a, b));
                cores.push(format!("{}, {}", b, a));
            }
        }
    }
    let mut out = vec![];
    for p in PROBES {
        out.push(p.to_string());
    }
    for (ctx, args) in TYPED_CONTEXTS {
        for arg in *args {
            let c = ctx.replace('@', arg);
            for core in &cores {
                out.push(c.replacen("{}", core, 1));
            }
        }
    }
    out.extend(spread_programs());
    let typed = out.len();
    // the untyped grammar and contexts of C02 are part of the universe too
    let flat = progen::programs(if thorough { 4 } else { 2 }, if thorough { 3_000_000 } else { 200_000 });
    let flat_n = flat.len();
    out.extend(flat);
    let (inctx, inctx_capped) = progen::in_contexts(if thorough { 3 } else { 2 }, if thorough { 2_000_000 } else { 150_000 });
    let inctx_n = inctx.len();
    out.extend(inctx);
    let meta = json!({"typed_contexts": TYPED_CONTEXTS.len(), "typed_context_instances": TYPED_CONTEXTS.iter().map(|c| c.1.len()).sum::<usize>(),
        "cores": cores.len(), "generic_cores": generic_cores, "typed_atoms": TYPED_ATOMS.len(), "core_nodes": core_nodes,
        "typed_programs": typed, "flat_programs": flat_n, "programs_in_untyped_contexts": inctx_n, "untyped_context_products_capped": inctx_capped, "probes": PROBES.len(), "spread_family_programs": spread_programs().len()});
    (out, meta)
}

pub fn run(tier: Tier) -> Result<Report, String> {
    let thorough = tier == Tier::Thorough;
    let budget = Budget::new(if thorough { 700.0 } else { 50.0 });
    let (programs, meta) = universe(thorough);
    let total = programs.len();
    let acc = programs
        .par_chunks(256)
        .map(|chunk| {
            crate::sim::system::install_panic_recorder();
            let mut a = Acc::default();
            if budget.exhausted() {
                return a;
            }
            for p in chunk {
                a.merge(handle(p));
            }
            a
        })
        .reduce(Acc::default, |mut a, b| {
            a.merge(b);
            a
        });
    let covered = acc.total;
    let mut pairs = acc.violations.clone();
    pairs.sort();
    pairs.dedup_by(|a, b| a.0 == b.0 && a.1 == b.1);
    let raw = pairs.len();
    let mut by_sig: BTreeMap<String, Violation> = BTreeMap::new();
    // (1) violations whose program contains a construct with a known language-level unsoundness
    // are identified by that construct class (no shrinking needed); the shortest witness is kept
    let mut rest: Vec<(String, String, String)> = vec![];
    for (kind, src, detail) in pairs {
        match construct_class(&src) {
            Some(class) => {
                let sig = format!("{}|{}", kind, class);
                let v = Violation {
                    signature: sig.clone(),
                    summary: format!("`{}`: {}", src.replace('\n', " ⏎ "), detail),
                    replay: json!({"engine": "c01", "source": src}),
                };
                match by_sig.get(&sig) {
                    Some(old) if old.replay["source"].as_str().map(|s| s.len()).unwrap_or(0) <= src.len() => {}
                    _ => {
                        by_sig.insert(sig, v);
                    }
                }
            }
            None => rest.push((kind, src, detail)),
        }
    }
    // (2) everything else is shrunk to its minimal core
    let shrunk: Vec<(String, String, String, String)> = rest
        .par_iter()
        .map(|(kind, src, detail)| {
            crate::sim::system::install_panic_recorder();
            let k: &str = kind;
            let core = shrink(src, match k { "stuck" => "stuck", "panic" => "panic", _ => "not-member" });
            (kind.clone(), core, src.clone(), detail.clone())
        })
        .collect();
    for (kind, core, src, detail) in shrunk {
        let sig = match construct_class(&core) {
            Some(class) => format!("{}|{}", kind, class),
            None => format!("{}|{}", kind, core),
        };
        by_sig.entry(sig.clone()).or_insert_with(|| {
            let runnable = core.replace(" ⏎ ", "\n");
            let d2 = match judge(&runnable) {
                Verdict::Unsound { detail, .. } => detail,
                _ => detail.clone(),
            };
            Violation {
                signature: sig,
                summary: format!("`{}`: {} (first seen in `{}`)", core, d2, src.replace('\n', " ⏎ ")),
                replay: json!({"engine": "c01", "source": runnable, "original": src}),
            }
        });
    }
    let coverage = json!({
        "evaluations": covered,
        "distinct_nontrivial": acc.values + acc.domain_errors,
        "rule": "typed skeletons (a function over a union / optional / partial / tuple-with-union / generic / recursive-list parameter, or a union-typed producer, whose body or continuation is a hole) x every listed inhabitant as argument x every core (all block bodies of the core grammar up to core_nodes nodes, the typed atoms, and their pairings as sequence / condition-consequence / alternative), plus the whole untyped universe of C02 and fixed probes. Non-trivial = accepted by the compiler and run to a value or a value-domain error.",
        "exhaustive": covered as usize == total,
        "universe": meta,
        "rejected_by_compiler": acc.rejected,
        "accepted": acc.accepted,
        "acceptance_rate": if covered > 0 { acc.accepted as f64 / covered as f64 } else { 0.0 },
        "ran_to_value": acc.values,
        "value_definitely_in_result_type": acc.member_yes,
        "membership_unknown_function_or_process_values": acc.member_unknown,
        "value_domain_errors": acc.domain_errors,
        "distinct_inferred_result_types": acc.distinct_result_types.len(),
        "not_judged": {"instruction_budget": acc.budget, "needs_process_runtime": acc.needs_runtime},
        "unsound_before_shrinking": raw,
        "caps_hit": {"wall_budget_exhausted": budget.exhausted(), "programs_not_reached": total as u64 - covered},
        "samples": acc.samples,
    });
    Ok(Report {
        property: "C01",
        level: "exploration",
        coverage,
        assumptions: vec![
            "stuck-state errors are the closed list StackUnderflow, CallInvalid, FunctionUndefined, BuiltinUndefined, FrameUnderflow, VariableUndefined, ConstantUndefined, FieldAccessInvalid, TypeMismatch, ArityMismatch, TupleEmpty, Scope* and the internal InvalidArgument messages; InvalidArgument from a builtin's value domain and OperationNotAllowed are value-domain errors".into(),
            "membership alarms are witness-based: a data value definitely outside the inferred result type; function/process/resource values are 'unknown' and never alarm".into(),
            "programs that need the multi-process runtime are counted, not judged here (the Engine-A scenario programs are type-checked programs run under C03-C06/C14/C15, where a stuck-state error would surface as I-noerr/outcome differences)".into(),
        ],
        violations: by_sig.into_values().collect(),
    })
}

pub fn replay(replay: &J) -> Result<bool, String> {
    let src = replay["source"].as_str().ok_or("no source")?;
    println!("  source:\n{}", src);
    match judge(src) {
        Verdict::Unsound { kind, detail } => {
            println!("  observed: {}: {}", kind, detail);
            Ok(true)
        }
        Verdict::Rejected => {
            println!("  observed: the compiler rejects the program now");
            Ok(false)
        }
        Verdict::Value { ty, value, member } => {
            println!("  observed: value {} of inferred type {} (member: {:?})", value, ty, member);
            Ok(false)
        }
        Verdict::DomainError(e) => {
            println!("  observed: value-domain error {}", e);
            Ok(false)
        }
        _ => {
            println!("  observed: not judged (budget / needs runtime)");
            Ok(false)
        }
    }
}
