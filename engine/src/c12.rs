//! C12 — builtins are total and agree with simple reference models.
//!
//! Bounded-exhaustive: for every pure builtin registered by `core_modules()` the full Cartesian
//! product of per-position boundary alphabets (integers) and of binary contents x rope shapes is
//! pushed through `BuiltinRegistry::get_implementation(name)(pid, &arg, &mut executor)` on a real
//! `Executor`, and a stride of the cases through compiled `[args] __name__` programs.  The oracle
//! is a plain reference model over `BigInt` / `Vec<u8>` (see `c12/model.rs`).
//!
//! All calls into repository code happen in child processes (this binary re-executed with the
//! environment variable `QV_C12_CHILD`), single threaded, under `catch_unwind`, with an internal
//! per-call watchdog; the parent schedules chunks of slices over a rayon pool, restarts a child
//! after a hang or a crash right behind the offending case, and merges the streamed summaries in
//! slice order, so the result does not depend on timing.

mod big;
mod cases;
mod model;
mod real;
mod runner;
mod shapes;
mod shrink;

use crate::infra::{Budget, Report, Tier, Violation};
use cases::{Case, Pos, Universe, alphabet, specs};
use rayon::prelude::*;
use runner::{BATCH, ChildSpec, SliceId, SliceSum};
use serde_json::{Value as J, json};
use std::collections::BTreeMap;
use std::io::{BufRead, BufReader};
use std::process::{Command, Stdio};
use std::sync::mpsc;
use std::time::Duration;

const ENV_CHILD: &str = "QV_C12_CHILD";

fn now_ms() -> u64 {
    std::time::SystemTime::now()
        .duration_since(std::time::UNIX_EPOCH)
        .map(|d| d.as_millis() as u64)
        .unwrap_or(0)
}

// ---------------------------------------------------------------------------------------------
// child process handling

enum Ev {
    Line(String),
    Eof,
}

enum Outcome {
    Done,
    Hang(usize, u64),
    /// died (exit status text) or stopped talking; with the last batch marker seen
    Died(String, Option<(usize, u64)>),
}

struct ChunkOut {
    sums: Vec<SliceSum>,
    extra: Vec<Violation>,
    notes: Vec<String>,
    respawns: u64,
}

fn run_child(spec: &ChildSpec, sums: &mut [SliceSum], backstop: Duration) -> Result<Outcome, String> {
    let exe = std::env::current_exe().map_err(|e| format!("current_exe: {}", e))?;
    let mut child = Command::new(exe)
        .arg("C12")
        .arg("--tier")
        .arg(if spec.thorough { "thorough" } else { "quick" })
        .env(ENV_CHILD, serde_json::to_string(spec).unwrap())
        .stdin(Stdio::null())
        .stdout(Stdio::piped())
        .stderr(Stdio::null())
        .spawn()
        .map_err(|e| format!("cannot spawn child: {}", e))?;
    let stdout = child.stdout.take().ok_or("no child stdout")?;
    let (tx, rx) = mpsc::channel::<Ev>();
    let reader = std::thread::spawn(move || {
        let r = BufReader::new(stdout);
        for line in r.lines() {
            match line {
                Ok(l) => {
                    if tx.send(Ev::Line(l)).is_err() {
                        return;
                    }
                }
                Err(_) => break,
            }
        }
        let _ = tx.send(Ev::Eof);
    });
    let mut last_b: Option<(usize, u64)> = None;
    let outcome = loop {
        match rx.recv_timeout(backstop) {
            Ok(Ev::Line(l)) => {
                let mut it = l.splitn(3, ' ');
                match it.next() {
                    Some("B") => {
                        let s = it.next().and_then(|x| x.parse().ok());
                        let i = it.next().and_then(|x| x.parse().ok());
                        if let (Some(s), Some(i)) = (s, i) {
                            last_b = Some((s, i));
                        }
                    }
                    Some("S") => {
                        let s: Option<usize> = it.next().and_then(|x| x.parse().ok());
                        let j: Option<SliceSum> = it.next().and_then(|x| serde_json::from_str(x).ok());
                        match (s, j) {
                            (Some(s), Some(j)) if s < sums.len() => sums[s].add(&j),
                            _ => return Err(format!("unparsable child line: {}", l)),
                        }
                    }
                    Some("H") => {
                        let s = it.next().and_then(|x| x.parse().ok()).unwrap_or(0);
                        let i = it.next().and_then(|x| x.parse().ok()).unwrap_or(0);
                        break Outcome::Hang(s, i);
                    }
                    Some("D") => break Outcome::Done,
                    _ => {}
                }
            }
            Ok(Ev::Eof) => {
                let status = child.wait().map(|s| format!("{}", s)).unwrap_or_else(|e| format!("{}", e));
                break Outcome::Died(status, last_b);
            }
            Err(_) => {
                let _ = child.kill();
                break Outcome::Died("no output within the backstop timeout; killed".into(), last_b);
            }
        }
    };
    let _ = child.kill();
    let _ = child.wait();
    drop(rx);
    let _ = reader.join();
    Ok(outcome)
}

/// Run one case given as data in its own child; Ok(sum) when it came back, Err(text) when it hung
/// or died again.
fn run_single(thorough: bool, case: &Case, watchdog_s: f64) -> Result<SliceSum, String> {
    let spec = ChildSpec {
        thorough,
        slices: vec![],
        resume_slice: 0,
        resume_case: 0,
        careful_until: 0,
        data_case: Some(case.to_json()),
        stride: 0,
        watchdog_s,
        deadline_ms: u64::MAX,
    };
    let mut sums = vec![SliceSum::default()];
    match run_child(&spec, &mut sums, Duration::from_secs_f64(watchdog_s * 31.0 + 60.0)) {
        Ok(Outcome::Done) => Ok(sums.pop().unwrap()),
        Ok(Outcome::Hang(_, _)) => Err(format!("no result within {} s of CPU time", watchdog_s)),
        Ok(Outcome::Died(status, _)) => Err(format!("process died ({})", status)),
        Err(e) => Err(format!("machinery: {}", e)),
    }
}

fn run_chunk(u: &Universe, base: &ChildSpec) -> ChunkOut {
    let mut out = ChunkOut {
        sums: vec![SliceSum::default(); base.slices.len()],
        extra: vec![],
        notes: vec![],
        respawns: 0,
    };
    let mut spec = base.clone();
    let backstop = Duration::from_secs_f64(base.watchdog_s * 31.0 + 60.0);
    loop {
        if out.respawns > 300 {
            out.notes.push("gave up on a chunk after 300 child restarts".into());
            return out;
        }
        let outcome = match run_child(&spec, &mut out.sums, backstop) {
            Ok(o) => o,
            Err(e) => {
                out.notes.push(format!("machinery: {}", e));
                return out;
            }
        };
        match outcome {
            Outcome::Done => return out,
            Outcome::Hang(s, i) => {
                out.respawns += 1;
                let case = runner::nth_case(u, base.thorough, &base.slices[s], i);
                match case {
                    None => out.notes.push(format!("hang reported at an unknown case ({:?}, {})", base.slices[s], i)),
                    Some(case) => match run_single(base.thorough, &case, base.watchdog_s * 2.0) {
                        Ok(sum) => {
                            out.notes.push(format!(
                                "a {} CPU-second timeout on {} did not reproduce in isolation; not reported",
                                base.watchdog_s,
                                case.text()
                            ));
                            out.sums[s].add(&sum);
                        }
                        Err(what) => {
                            let mut replay = case.to_json();
                            replay["kind"] = json!("hang");
                            out.extra.push(Violation {
                                signature: format!("{} => hang-or-crash", case.text()),
                                summary: format!("{}: {} (twice: inside the enumeration and alone in a fresh process)", case.text(), what),
                                replay,
                            });
                        }
                    },
                }
                spec.resume_slice = s;
                spec.resume_case = i + 1;
                spec.careful_until = 0;
            }
            Outcome::Died(status, last) => {
                out.respawns += 1;
                let Some((s, i)) = last else {
                    out.notes.push(format!("machinery: child died before its first batch ({})", status));
                    return out;
                };
                let careful = s == spec.resume_slice && i < spec.careful_until;
                if careful {
                    // the culprit is case (s, i)
                    match runner::nth_case(u, base.thorough, &base.slices[s], i) {
                        Some(case) => {
                            let mut replay = case.to_json();
                            replay["kind"] = json!("hang");
                            out.extra.push(Violation {
                                signature: format!("{} => hang-or-crash", case.text()),
                                summary: format!("{}: the process running it died ({})", case.text(), status),
                                replay,
                            });
                        }
                        None => out.notes.push(format!("crash at an unknown case ({:?}, {})", base.slices[s], i)),
                    }
                    spec.resume_slice = s;
                    spec.resume_case = i + 1;
                    spec.careful_until = 0;
                } else {
                    spec.resume_slice = s;
                    spec.resume_case = i;
                    spec.careful_until = i + BATCH + 1;
                }
            }
        }
    }
}

// ---------------------------------------------------------------------------------------------
// planning

struct Planned {
    id: SliceId,
    cost: u64,
}

fn plan(u: &Universe, thorough: bool) -> Vec<Planned> {
    let mut out = vec![];
    for ci in 0..u.contents.len() {
        // tiny, and everything else relies on the constructors: run these first
        out.push(Planned { id: SliceId { builtin: "#build".into(), a0: ci }, cost: u64::MAX / 1024 });
    }
    for (gi, g) in big::groups(thorough).iter().enumerate() {
        out.push(Planned { id: SliceId { builtin: "#big".into(), a0: gi }, cost: 4_000_000 * g.len() as u64 / 40 });
    }
    for sp in specs() {
        let n0 = u.alpha_len(sp.pos[0]);
        let rest: u64 = sp.pos[1..].iter().map(|p| u.alpha_len(*p) as u64).product();
        let nbins = sp.pos.iter().filter(|p| !matches!(p, Pos::Int(_))).count();
        let shape_factor: u64 = match (nbins, thorough) {
            (0, _) => 1,
            (1, false) => 25,
            (1, true) => 90,
            (_, false) => 150,
            (_, true) => 2500,
        };
        for a0 in 0..n0 {
            // a compiled call costs about as much as 100 direct ones
            out.push(Planned { id: SliceId { builtin: sp.name.into(), a0 }, cost: rest * shape_factor + 50 });
        }
    }
    out
}

/// Longest-processing-time packing into `k` chunks (deterministic).
fn pack(mut slices: Vec<Planned>, k: usize) -> Vec<Vec<SliceId>> {
    let mut order: Vec<usize> = (0..slices.len()).collect();
    order.sort_by(|&a, &b| slices[b].cost.cmp(&slices[a].cost).then(a.cmp(&b)));
    let mut loads = vec![0u64; k];
    let mut chunks: Vec<Vec<(usize, SliceId)>> = vec![vec![]; k];
    for i in order {
        let (best, _) = loads.iter().enumerate().min_by_key(|(j, l)| (**l, *j)).unwrap();
        loads[best] += slices[i].cost;
        chunks[best].push((i, slices[i].id.clone()));
    }
    let _ = &mut slices;
    // heaviest chunk first
    let mut order: Vec<usize> = (0..k).collect();
    order.sort_by(|&a, &b| loads[b].cmp(&loads[a]).then(a.cmp(&b)));
    order
        .into_iter()
        .map(|i| std::mem::take(&mut chunks[i]))
        .filter(|c| !c.is_empty())
        .map(|mut c| {
            c.sort_by_key(|(i, _)| *i);
            c.into_iter().map(|(_, s)| s).collect()
        })
        .collect()
}

// ---------------------------------------------------------------------------------------------
// entry points

pub fn run(tier: Tier) -> Result<Report, String> {
    if let Ok(spec) = std::env::var(ENV_CHILD) {
        runner::child_main(&spec);
    }
    let thorough = tier == Tier::Thorough;
    let budget = Budget::new(if thorough { 600.0 } else { 22.0 });
    let deadline_ms = now_ms() + if thorough { 600_000 } else { 22_000 };
    let u = Universe::new();
    let specs = specs();

    // the registry decides what has to be covered
    let reg = crate::qcompile::core_builtins();
    let registered: Vec<String> = reg
        .get_function_names()
        .into_iter()
        .filter(|n| n.starts_with("integer_") || n.starts_with("binary_") || n.starts_with("vector_"))
        .collect();
    let unmodelled: Vec<String> = registered.iter().filter(|n| !model::MODELLED.contains(&n.as_str())).cloned().collect();
    let missing: Vec<&str> = model::MODELLED.iter().filter(|n| !registered.iter().any(|r| r == *n)).copied().collect();
    if !missing.is_empty() {
        return Err(format!("builtins with a model but not registered by core_modules(): {:?}", missing));
    }
    for sp in &specs {
        if !model::MODELLED.contains(&sp.name) {
            return Err(format!("spec without model: {}", sp.name));
        }
    }

    let threads = std::thread::available_parallelism().map(|n| n.get()).unwrap_or(4);
    let planned = plan(&u, thorough);
    let n_slices = planned.len();
    let mut chunks = pack(planned, threads * 12);
    // VERIF_SEED only rotates the order in which chunks are started
    let seed = crate::infra::seed().rem_euclid(chunks.len().max(1) as i64) as usize;
    chunks.rotate_left(seed);

    let stride: u64 = if thorough { 20 } else { 50 };
    let base = |slices: Vec<SliceId>| -> ChildSpec {
        let big = slices.iter().any(|s| s.builtin == "#big");
        ChildSpec {
            thorough,
            slices,
            resume_slice: 0,
            resume_case: 0,
            careful_until: 0,
            data_case: None,
            stride,
            watchdog_s: if big { 40.0 } else { 5.0 },
            deadline_ms,
        }
    };
    let chunk_specs: Vec<ChildSpec> = chunks.into_iter().map(base).collect();
    let pool = rayon::ThreadPoolBuilder::new()
        .num_threads(threads)
        .build()
        .map_err(|e| format!("rayon: {}", e))?;
    // a work queue: every pool thread pulls the next chunk (heaviest first) and drives one child
    let next = std::sync::atomic::AtomicUsize::new(0);
    let results: std::sync::Mutex<Vec<Option<ChunkOut>>> = std::sync::Mutex::new((0..chunk_specs.len()).map(|_| None).collect());
    pool.scope(|sc| {
        for _ in 0..threads {
            sc.spawn(|_| loop {
                let i = next.fetch_add(1, std::sync::atomic::Ordering::SeqCst);
                if i >= chunk_specs.len() {
                    return;
                }
                let cs = &chunk_specs[i];
                let o = if budget.exhausted() {
                    let mut o = ChunkOut { sums: vec![SliceSum::default(); cs.slices.len()], extra: vec![], notes: vec![], respawns: 0 };
                    for s in o.sums.iter_mut() {
                        s.capped = true;
                    }
                    o
                } else {
                    let t0 = std::time::Instant::now();
                    let o = run_chunk(&u, cs);
                    if std::env::var_os("C12_DEBUG").is_some() {
                        eprintln!("chunk {} ({} slices, first {:?}) took {:.2}s, started at {} ms before deadline", i, cs.slices.len(), cs.slices.first(), t0.elapsed().as_secs_f64(), deadline_ms as i64 - now_ms() as i64);
                    }
                    o
                };
                results.lock().unwrap()[i] = Some(o);
            });
        }
    });
    let outs: Vec<(ChildSpec, ChunkOut)> = chunk_specs
        .into_iter()
        .zip(results.into_inner().unwrap().into_iter())
        .map(|(cs, o)| {
            let n = cs.slices.len();
            (cs, o.unwrap_or(ChunkOut { sums: vec![SliceSum::default(); n], extra: vec![], notes: vec!["machinery: a chunk was not run".into()], respawns: 0 }))
        })
        .collect();

    // ---- merge, in slice-id order
    let mut per_slice: BTreeMap<(String, usize), SliceSum> = BTreeMap::new();
    let mut extra: Vec<Violation> = vec![];
    let mut notes: Vec<String> = vec![];
    let mut respawns = 0u64;
    for (cs, o) in outs {
        for (sl, sum) in cs.slices.iter().zip(o.sums.into_iter()) {
            per_slice.entry((sl.builtin.clone(), sl.a0)).or_default().add(&sum);
        }
        extra.extend(o.extra);
        notes.extend(o.notes);
        respawns += o.respawns;
    }
    notes.sort();
    if notes.iter().any(|n| n.starts_with("machinery")) {
        return Err(notes.join("; "));
    }

    let mut total = SliceSum::default();
    let mut per_builtin: BTreeMap<String, SliceSum> = BTreeMap::new();
    let mut unfinished: Vec<String> = vec![];
    for ((name, a0), sum) in &per_slice {
        if !sum.finished {
            unfinished.push(format!("{}#{}", name, a0));
        }
        per_builtin.entry(name.clone()).or_default().add(sum);
    }
    for (_, sum) in &per_builtin {
        total.add(sum);
    }
    let failures: BTreeMap<String, runner::FailRec> = total.failures.clone();
    // keep the evidence readable: one sample per family plus a few more
    let keep = ["integer_divide", "integer_shift", "binary_get", "binary_set", "binary_index", "binary_shift", "vector_multiply", "vector_take", "#big"];
    let samples: Vec<J> = per_builtin
        .iter()
        .filter(|(n, _)| keep.contains(&n.as_str()))
        .filter_map(|(_, s)| s.samples.first().cloned())
        .collect();

    let mut violations: Vec<Violation> = failures
        .iter()
        .map(|(sig, f)| Violation {
            signature: sig.clone(),
            summary: format!("{} [{} enumerated case(s) shrink to this core]", f.summary, f.count),
            replay: f.replay.clone(),
        })
        .collect();
    violations.extend(extra);

    let exhaustive = unfinished.is_empty() && !total.capped;
    let mut caps_hit: Vec<String> = vec![];
    if !exhaustive {
        caps_hit.push(format!(
            "wall-clock budget of {} s reached; {} of {} slices not finished: {}",
            if thorough { 600 } else { 22 },
            unfinished.len(),
            n_slices,
            unfinished.iter().take(12).cloned().collect::<Vec<_>>().join(" ")
        ));
    }
    caps_hit.extend(notes.iter().cloned());

    let shapes_per_content: BTreeMap<String, J> = u
        .contents
        .iter()
        .zip(u.shapes.iter())
        .map(|(c, s)| {
            let by_level: Vec<usize> = (0..4).map(|l| s.iter().filter(|x| x.level == l).count()).collect();
            (c.name.to_string(), json!({"bytes": shapes::hex(&c.bytes), "shapes": s.len(), "by_level_lit_1step_2step_materialized": by_level}))
        })
        .collect();
    let kinds = [
        ("full", cases::Kind::Full), ("index", cases::Kind::Index), ("byte_offset", cases::Kind::Offset),
        ("bit_offset", cases::Kind::BitOff), ("num_bits", cases::Kind::NumBits), ("byte_value", cases::Kind::ByteVal),
        ("lane_width", cases::Kind::Width), ("num_bytes", cases::Kind::NumBytes), ("set_value", cases::Kind::SetValue),
        ("append_value", cases::Kind::AppendValue), ("shift_amount", cases::Kind::ShiftAmt),
    ];
    let alphabets: BTreeMap<String, J> = kinds
        .iter()
        .map(|(n, k)| {
            let a = alphabet(*k);
            (n.to_string(), json!({"size": a.len(), "members": a.iter().map(|x| x.to_string()).collect::<Vec<_>>()}))
        })
        .collect();
    let per_builtin_json: BTreeMap<String, J> = per_builtin
        .iter()
        .map(|(n, s)| {
            (
                n.clone(),
                json!({
                    "content_level_cases": s.content_cases,
                    "evaluations": s.evaluations,
                    "compiled": s.compiled,
                    "nontrivial": s.nontrivial,
                    "expect_value": s.expect_value,
                    "expect_error": s.expect_error,
                    "abstained": s.abstain_totality_only + s.abstain_narrowing,
                    "observed_panic": s.observed_panic,
                    "failing_cases": s.failing_cases,
                }),
            )
        })
        .collect();
    let failing: BTreeMap<String, u64> = failures.iter().map(|(s, f)| (s.clone(), f.count)).collect();

    let coverage = json!({
        "evaluations": total.evaluations,
        "compiled_evaluations": total.compiled,
        "distinct_nontrivial": total.nontrivial,
        "distinct_nontrivial_by_content": total.nontrivial_content,
        "content_level_cases": total.content_cases,
        "rule": "Cases are the Cartesian product, per builtin, of the per-position alphabets: boundary integers for integer positions, (content x rope shape) for binary positions; all members of an alphabet are distinct, so every case is distinct by construction. A case is non-trivial when the reference model yields a value for it (an integer, a binary or nil), i.e. the argument is inside the documented domain and the result is compared value by value; cases whose expected outcome is a domain error count as trivial. distinct_nontrivial counts non-trivial cases at shape level, distinct_nontrivial_by_content counts them once per (contents, integers) tuple. Shapes per case: see shape_policy.",
        "shape_policy": if thorough {
            "thorough: one binary: every shape (literal, 1 step, 2 steps, each also after materialize); two binaries: every pair of shapes when the model yields a value, else pairs with one side <= 2 steps and the other <= 1 step"
        } else {
            "quick: one binary: every shape when the model yields a value, else shapes of <= 1 step (literal only for binary_get / binary_set, whose 4-5 integer positions are almost always outside the domain); two binaries: pairs with one side <= 2 steps and the other <= 1 step when the model yields a value, else one side <= 1 step and the other literal"
        },
        "samples": samples,
        "exhaustive": exhaustive,
        "caps_hit": caps_hit,
        "builtins_checked": specs.len(),
        "builtins_registered_pure": registered.len(),
        "unmodelled_builtins": unmodelled,
        "contents": shapes_per_content,
        "alphabets": alphabets,
        "compiled_stride": stride,
        "per_builtin": per_builtin_json,
        "expected": {"value": total.expect_value, "error": total.expect_error, "abstain_totality_only": total.abstain_totality_only, "abstain_narrowing": total.abstain_narrowing},
        "observed": {"value": total.observed_value, "nil": total.observed_nil, "error": total.observed_error, "panic": total.observed_panic, "other": total.observed_other},
        "failing_cases": total.failing_cases,
        "failing_cases_by_signature": failing,
        "shrink_evaluations": total.shrink_evaluations,
        "child_restarts": respawns,
        "slices": n_slices,
        "threads": threads,
    });
    let mut assumptions = vec![
        "Documented contract = doc comments in quiver-core/src/builtins/{integer,binary,vector}.rs (incl. the inline statements 'take the shorter length' for binary_and and 'take the longer length, padding with zeros' for binary_or/xor), std/int.qv (truncating quotient, floor sqrt), std/bin.qv, MAX_BINARY_SIZE = 16 MiB.".to_string(),
        "integer_modulo: no sign convention is documented; the law a = (a/b)*b + a mod b with the documented truncating quotient is checked. integer_sin/cos: totality only.".to_string(),
        "Abstained (either a clean error or the model value is accepted): an index/count/shift amount that does not fit a machine word while the unbounded model still has an answer (binary_repeat of an empty binary, binary_index offset, binary_shift amount).".to_string(),
        "binary_set / binary_append: the field is read as unsigned (as binary_get returns it), so a value in [2^63, 2^64) fits 64 bits / 8 bytes.".to_string(),
        "Errors are compared only as 'is a clean Err'; messages and variants are not judged.".to_string(),
    ];
    if !unmodelled.is_empty() {
        assumptions.push(format!("registered pure builtins without a reference model (not checked): {:?}", unmodelled));
    }
    Ok(Report { property: "C12", level: "exploration", coverage, assumptions, violations })
}

pub fn replay(replay: &J) -> Result<bool, String> {
    if let Ok(spec) = std::env::var(ENV_CHILD) {
        runner::child_main(&spec);
    }
    let case = Case::from_json(replay).ok_or("replay: cannot parse the case")?;
    let kind = replay["kind"].as_str().unwrap_or("");
    println!("  case: {}", case.text());
    if case.name != "#build" {
        println!("  as source: {}", real::source_of(&case.name, &case.args));
    }
    if kind == "hang" {
        // may hang or kill the process: run it in a child
        return match run_single(false, &case, 10.0) {
            Ok(sum) => {
                println!("  observed: returned within 10 s; {} failure(s) of another kind", sum.failures.len());
                for (s, f) in &sum.failures {
                    println!("    {}: {}", s, f.summary);
                }
                Ok(!sum.failures.is_empty())
            }
            Err(what) => {
                println!("  observed: {}", what);
                println!("  expected: a value or a clean error");
                Ok(true)
            }
        };
    }
    let mut ctx = real::Ctx::new();
    let (exp, obs) = runner::eval_case(&mut ctx, &case);
    println!("  observed: {}", obs.text());
    println!("  expected: {}", cases::expect_text(&exp));
    if kind == "result-depends-on-shape" {
        let mut l = case.clone();
        for a in l.args.iter_mut() {
            if let real::SArg::Bin(e) = a {
                *a = real::SArg::Bin(shapes::BinExpr::Lit(e.content()));
            }
        }
        let (_, lit_obs) = runner::eval_case(&mut ctx, &l);
        println!("  same content as literals: {}", lit_obs.text());
        return Ok(lit_obs != obs);
    }
    if kind == "compiled-differs-from-direct" {
        let mut d = case.clone();
        d.compiled = false;
        let (_, direct) = runner::eval_case(&mut ctx, &d);
        println!("  direct call: {}", direct.text());
        return Ok(direct != obs);
    }
    match cases::judge(&exp, &obs) {
        Some(f) => {
            println!("  verdict: {}{}", f.key, if f.loc.is_empty() { String::new() } else { format!(" at {}", f.loc) });
            Ok(true)
        }
        None => Ok(false),
    }
}
