//! Compiling Quiver sources with the real parser + compiler (shared by all engines).

use quiver_compiler::compiler::ModuleCache;
use quiver_compiler::{Compiler, PackageResolver};
use quiver_core::builtins::BuiltinRegistry;
use quiver_core::bytecode::{Bytecode, Function};
use quiver_core::program::Program;
use quiver_core::types::Type;
use quiver_io::NativeEffect;
use std::collections::HashMap;

pub type E = NativeEffect;

#[derive(Debug, Clone)]
pub enum CompileFail {
    Parse(String),
    Compile(String),
    Panic(String),
}

pub struct CompiledUnit {
    pub program: Program,
    pub entry: usize,
    pub result_type: usize,
    pub receive_type: usize,
}

impl CompiledUnit {
    pub fn bytecode(&self) -> Bytecode {
        self.program.to_bytecode(Some(self.entry))
    }
}

pub fn core_builtins() -> BuiltinRegistry<E> {
    BuiltinRegistry::<E>::with_modules(&quiver_core::builtins::core_modules())
}

pub fn io_builtins() -> BuiltinRegistry<E> {
    let mut b = core_builtins();
    quiver_io::attach_file_builtins(&mut b);
    quiver_io::attach_network_builtins(&mut b);
    b
}

/// Compile `source` as top-level code wrapped in a nilary entry function (what `quiv run` and the
/// REPL do), with in-memory `modules` available next to the bundled standard library.
pub fn compile_with(
    source: &str,
    builtins: &BuiltinRegistry<E>,
    modules: HashMap<Vec<String>, String>,
) -> Result<CompiledUnit, CompileFail> {
    let ast = quiver_compiler::parse(source).map_err(|e| CompileFail::Parse(format!("{}", e)))?;
    let mut program = Program::new();
    let mut module_cache = ModuleCache::new();
    let resolver = if modules.is_empty() {
        PackageResolver::inline()
    } else {
        PackageResolver::memory(modules)
    };
    // the entry function's parameter is nil: pass the id of the nil *type*
    let nil_param = program.register_type(Type::nil());
    let compiled = Compiler::compile(
        ast,
        &HashMap::new(),
        &mut module_cache,
        &resolver,
        &mut program,
        nil_param,
        &HashMap::new(),
        builtins,
        None,
    )
    .map_err(|e| CompileFail::Compile(format!("{:?}", e.error)))?;
    let nil_type_id = program.register_type(Type::nil());
    let callable = program.register_type(Type::Callable {
        parameter: nil_type_id,
        result: compiled.result_type,
        receive: compiled.receive_type,
    });
    let entry = program.register_function(Function {
        instructions: compiled.instructions,
        captures: 0,
        type_id: callable,
    });
    Ok(CompiledUnit {
        program,
        entry,
        result_type: compiled.result_type,
        receive_type: compiled.receive_type,
    })
}

pub fn compile(source: &str, builtins: &BuiltinRegistry<E>) -> Result<CompiledUnit, CompileFail> {
    compile_with(source, builtins, HashMap::new())
}
