//! C09 — Assignability implies containment; overlap detection is complete.
//!
//! Bounded-exhaustive exploration: every closed, contractive type term of the universe described
//! in `coverage.universe` is registered through `Program::register_type/register_tuple`; every
//! ordered pair is put to `quiver_core::types::{is_compatible, types_overlap}` and (for the pairs
//! selected by the stated rule) to the narrowing helpers `intersect_types` / `compute_complement`;
//! every answer is judged against an independent structural membership oracle over an enumerated
//! value universe. All alarms are concrete witnesses.
//!
//! Process layout: the relation can recurse without bound on some inputs (a genuine defect, see the
//! report), which kills the process with a stack overflow. The bulk work therefore runs in a child
//! process (`C09_CHILD`), supervised by the parent: rows are persisted as they complete, the
//! in-flight unprotected calls are recorded in per-thread marker files, a dead child is replaced by
//! a new one that skips the culprit calls (each confirmed in an isolated single-call child).
pub mod judge;
pub mod real;
pub mod rows;
pub mod shrink;
pub mod ty;
pub mod universe;
pub mod vals;

use crate::infra::{Report, Tier, Violation};
use judge::{Kind, Opts};
use rayon::prelude::*;
use rows::Row;
use serde_json::{Value as J, json};
use std::collections::{BTreeMap, HashMap, HashSet};
#[allow(unused_imports)]
use rows::RowCtx;
use std::io::Write;
use std::path::{Path, PathBuf};
use std::sync::Mutex;
use std::time::{Duration, Instant};
use ty::{Ty, parse_ty, reverse_unions};
use universe::{Params, Universe};

const STACK: usize = 256 << 20;

/// Work counter for the child's heartbeat (the supervisor's watchdog watches progress.log grow).
pub static TICK: std::sync::atomic::AtomicU64 = std::sync::atomic::AtomicU64::new(0);
/// CPU seconds (user + system) consumed by this process so far (Linux, 100 Hz ticks).
pub fn cpu_s() -> f64 {
    std::fs::read_to_string("/proc/self/stat")
        .ok()
        .and_then(|s| {
            let rest = s.rsplit(')').next()?.to_string();
            let f: Vec<&str> = rest.split_whitespace().collect();
            let u: f64 = f.get(11)?.parse().ok()?;
            let k: f64 = f.get(12)?.parse().ok()?;
            Some((u + k) / 100.0)
        })
        .unwrap_or(0.0)
}
pub fn tick() {
    TICK.fetch_add(1, std::sync::atomic::Ordering::Relaxed);
}

fn params_for(tier: Tier) -> Params {
    let mut p = match tier {
        Tier::Quick => Params { depth: 3, weight: 5, full_depth: 1, unroll_weight: 4, inhabitant_cap: 4, token_weight: 5, trans_weight: 5 },
        Tier::Thorough => Params { depth: 3, weight: 6, full_depth: 1, unroll_weight: 5, inhabitant_cap: 4, token_weight: 5, trans_weight: 5 },
    };
    if let Ok(s) = std::env::var("C09_PARAMS") {
        // depth,weight,full_depth,unroll_weight (debugging aid)
        let v: Vec<usize> = s.split(',').filter_map(|x| x.parse().ok()).collect();
        if v.len() == 4 {
            p.depth = v[0];
            p.weight = v[1];
            p.full_depth = v[2];
            p.unroll_weight = v[3];
        }
    }
    p
}

fn limit_for(tier: Tier) -> f64 {
    if let Some(l) = std::env::var("C09_LIMIT_S").ok().and_then(|s| s.parse().ok()) {
        return l;
    }
    match tier {
        Tier::Quick => 26.0,
        Tier::Thorough => 660.0,
    }
}

pub fn run(tier: Tier) -> Result<Report, String> {
    if let Ok(p) = std::env::var("C09_PROBE") {
        on_big_stack(move || probe(&p));
        std::process::exit(0);
    }
    if let Ok(s) = std::env::var("C09_SINGLE") {
        on_big_stack(move || single(&s));
        std::process::exit(0);
    }
    if let Ok(w) = std::env::var("C09_CHILD") {
        let code = child_main(tier, Path::new(&w));
        std::process::exit(code);
    }
    supervise(tier)
}

fn on_big_stack<F: FnOnce() + Send + 'static>(f: F) {
    std::thread::Builder::new().stack_size(STACK).spawn(f).unwrap().join().ok();
}

// ==========================================================================================
// Isolated single-call child: the real function, called exactly as the compiler calls it.

fn single(spec: &str) {
    let parts: Vec<&str> = spec.split('|').collect();
    let a = parse_ty(parts[1]).expect("type a");
    let b = parse_ty(parts[2]).expect("type b");
    let mut p = quiver_core::program::Program::new();
    p.never();
    let ia = real::register(&mut p, &a);
    let ib = real::register(&mut p, &b);
    match parts[0] {
        "RC" => println!("OK {}", real::raw_compatible(&p, ia, ib)),
        "RO" => println!("OK {}", real::raw_overlap(&p, ia, ib)),
        "I" => {
            let r = quiver_compiler::compiler::verif::intersect_types(ia, ib, &mut p);
            println!("OK {:?}", real::decode(&p, r).map(|t| t.to_string()));
        }
        "C" => {
            let r = quiver_compiler::compiler::verif::compute_complement(ia, ib, &mut p);
            println!("OK {:?}", real::decode(&p, r).map(|t| t.to_string()));
        }
        _ => println!("bad op"),
    }
}

#[derive(Debug, Clone, PartialEq)]
enum SingleOutcome {
    Completed(String),
    Died(String),
    Hung,
}

/// Run one real call in a fresh process on the default 8 MiB main-thread stack... the call is
/// made on a 256 MiB thread, so a death by stack overflow means > 256 MiB of recursion.
fn run_single(op: &str, a: &str, b: &str, timeout_s: f64) -> SingleOutcome {
    let exe = match std::env::current_exe() {
        Ok(e) => e,
        Err(e) => return SingleOutcome::Died(format!("no current_exe: {}", e)),
    };
    let mut child = match std::process::Command::new(exe)
        .arg("C09")
        .env("C09_SINGLE", format!("{}|{}|{}", op, a, b))
        .env_remove("C09_CHILD")
        .env_remove("C09_PROBE")
        .stdout(std::process::Stdio::piped())
        .stderr(std::process::Stdio::piped())
        .spawn()
    {
        Ok(c) => c,
        Err(e) => return SingleOutcome::Died(format!("spawn failed: {}", e)),
    };
    let t0 = Instant::now();
    loop {
        match child.try_wait() {
            Ok(Some(st)) => {
                let out = child.wait_with_output().ok();
                let (so, se) = out
                    .map(|o| {
                        (
                            String::from_utf8_lossy(&o.stdout).to_string(),
                            String::from_utf8_lossy(&o.stderr).to_string(),
                        )
                    })
                    .unwrap_or_default();
                if st.success() && so.contains("OK ") {
                    return SingleOutcome::Completed(so.trim().to_string());
                }
                use std::os::unix::process::ExitStatusExt;
                let why = if se.contains("overflowed its stack") {
                    format!("stack overflow (signal {:?})", st.signal())
                } else {
                    format!("status {:?} signal {:?}: {}", st.code(), st.signal(), se.lines().last().unwrap_or(""))
                };
                return SingleOutcome::Died(why);
            }
            Ok(None) => {
                if t0.elapsed().as_secs_f64() > timeout_s {
                    let _ = child.kill();
                    let _ = child.wait();
                    return SingleOutcome::Hung;
                }
                std::thread::sleep(Duration::from_millis(5));
            }
            Err(e) => return SingleOutcome::Died(format!("wait failed: {}", e)),
        }
    }
}

// ==========================================================================================
// Supervisor.

fn supervise(tier: Tier) -> Result<Report, String> {
    let t0 = Instant::now();
    let limit = limit_for(tier);
    let work = crate::infra::verif_root().join("tmp").join(format!("c09-{}", tier.name()));
    let _ = std::fs::remove_dir_all(&work);
    std::fs::create_dir_all(&work).map_err(|e| format!("cannot create {}: {}", work.display(), e))?;
    let exe = std::env::current_exe().map_err(|e| e.to_string())?;
    let mut skip: Vec<(u32, u32, String, String, String, String)> = vec![]; // i j op a b outcome
    let mut restarts = 0usize;
    let mut unexplained_deaths = 0usize;
    let mut external_deaths: Vec<String> = vec![];
    let result: J = loop {
        std::fs::write(
            work.join("skip.json"),
            serde_json::to_string(&skip.iter().map(|s| json!([s.0, s.1, s.2, s.5])).collect::<Vec<_>>()).unwrap(),
        )
        .map_err(|e| e.to_string())?;
        for f in std::fs::read_dir(&work).map_err(|e| e.to_string())? {
            let f = f.map_err(|e| e.to_string())?;
            if f.file_name().to_string_lossy().starts_with("marker-") {
                let _ = std::fs::remove_file(f.path());
            }
        }
        let remaining = (limit - t0.elapsed().as_secs_f64()).max(1.0);
        let stderr_file = std::fs::File::create(work.join("child.stderr")).map_err(|e| e.to_string())?;
        let mut child = std::process::Command::new(&exe)
            .arg("C09")
            .arg("--tier")
            .arg(tier.name())
            .env("C09_CHILD", &work)
            .env("C09_BUDGET_S", format!("{}", remaining))
            .stdout(std::process::Stdio::null())
            .stderr(stderr_file)
            .spawn()
            .map_err(|e| format!("cannot spawn child: {}", e))?;
        // watchdog: the child appends to progress.log at every row boundary and phase
        let mut last_size = 0u64;
        let mut last_change = Instant::now();
        let status = loop {
            match child.try_wait() {
                Ok(Some(st)) => break Some(st),
                Ok(None) => {}
                Err(e) => return Err(format!("wait: {}", e)),
            }
            let size = std::fs::metadata(work.join("progress.log")).map(|m| m.len()).unwrap_or(0);
            if size != last_size {
                last_size = size;
                last_change = Instant::now();
            }
            if last_change.elapsed().as_secs_f64() > 120.0 {
                let _ = child.kill();
                let _ = child.wait();
                break None;
            }
            std::thread::sleep(Duration::from_millis(20));
        };
        let status_text = match &status {
            Some(st) => {
                use std::os::unix::process::ExitStatusExt;
                format!("exit code {:?}, signal {:?}", st.code(), st.signal())
            }
            None => "killed by the watchdog (no progress for 120 s)".to_string(),
        };
        if let Some(st) = status {
            if st.success() {
                let text = std::fs::read_to_string(work.join("result.json"))
                    .map_err(|e| format!("child succeeded but left no result: {}", e))?;
                break serde_json::from_str(&text).map_err(|e| e.to_string())?;
            }
        }
        // the child died (or was killed by the watchdog): find the culprit call(s)
        restarts += 1;
        let mut found = 0;
        let mut markers = vec![];
        for f in std::fs::read_dir(&work).map_err(|e| e.to_string())? {
            let f = f.map_err(|e| e.to_string())?;
            if f.file_name().to_string_lossy().starts_with("marker-") {
                if let Ok(text) = std::fs::read_to_string(f.path()) {
                    let l: Vec<&str> = text.lines().collect();
                    if l.len() >= 3 {
                        let h: Vec<&str> = l[0].split_whitespace().collect();
                        if h.len() == 3 {
                            if let (Ok(i), Ok(j)) = (h[0].parse::<u32>(), h[1].parse::<u32>()) {
                                markers.push((i, j, h[2].to_string(), l[1].trim().to_string(), l[2].trim().to_string()));
                            }
                        }
                    }
                }
            }
        }
        markers.sort();
        markers.dedup();
        for (i, j, op, a, b) in markers {
            if skip.iter().any(|s| s.0 == i && s.1 == j && s.2 == op) {
                continue;
            }
            match run_single(&op, &a, &b, 20.0) {
                SingleOutcome::Completed(_) => {}
                SingleOutcome::Died(why) => {
                    skip.push((i, j, op, a, b, why));
                    found += 1;
                }
                SingleOutcome::Hung => {
                    skip.push((i, j, op, a, b, "no answer within 20 s".into()));
                    found += 1;
                }
            }
        }
        if found == 0 {
            // Nothing in flight reproduces the death: the worker was killed from outside (or died
            // for a reason unrelated to an input). Its completed rows are on disk; start another
            // worker, but give up when that keeps happening.
            unexplained_deaths += 1;
            external_deaths.push(status_text.clone());
        }
        if unexplained_deaths > 3 || restarts > 80 {
            let tail = std::fs::read_to_string(work.join("child.stderr")).unwrap_or_default();
            let tail: Vec<&str> = tail.lines().rev().take(5).collect();
            return Err(format!(
                "worker process died {} time(s) ({} of them with no in-flight call that reproduces the death in isolation; last: {}); stderr tail: {:?}",
                restarts, unexplained_deaths, status_text, tail
            ));
        }
    };

    // ---- assemble the report -------------------------------------------------------------------
    let mut coverage = result["coverage"].clone();
    let mut violations: Vec<Violation> = vec![];
    let mut confirmations = vec![];
    // isolated confirmations run in parallel (each is a fresh process)
    let mut tasks: Vec<(String, String, String)> = vec![];
    for v in result["violations"].as_array().cloned().unwrap_or_default() {
        let kind = v["replay"]["kind"].as_str().unwrap_or("");
        let a = v["replay"]["a"].as_str().unwrap_or("").to_string();
        let b = v["replay"]["b"].as_str().unwrap_or("").to_string();
        match kind {
            "DC" => tasks.push(("RC".into(), a, b)),
            "DO" => tasks.push(("RO".into(), a, b)),
            "DN" => {
                tasks.push(("I".into(), a.clone(), b.clone()));
                tasks.push(("C".into(), a, b));
            }
            _ => {}
        }
    }
    let outcomes: HashMap<(String, String, String), SingleOutcome> = tasks
        .par_iter()
        .map(|t| (t.clone(), run_single(&t.0, &t.1, &t.2, 30.0)))
        .collect();
    let run_single = |op: &str, a: &str, b: &str, _t: f64| -> SingleOutcome {
        outcomes
            .get(&(op.to_string(), a.to_string(), b.to_string()))
            .cloned()
            .unwrap_or(SingleOutcome::Hung)
    };
    for v in result["violations"].as_array().cloned().unwrap_or_default() {
        let kind = v["replay"]["kind"].as_str().unwrap_or("").to_string();
        let a = v["replay"]["a"].as_str().unwrap_or("").to_string();
        let b = v["replay"]["b"].as_str().unwrap_or("").to_string();
        let mut summary = v["summary"].as_str().unwrap_or("").to_string();
        let mut signature = v["signature"].as_str().unwrap_or("").to_string();
        match kind.as_str() {
            "DC" | "DO" => {
                let op = if kind == "DC" { "RC" } else { "RO" };
                let o = run_single(op, &a, &b, 20.0);
                confirmations.push(json!({"signature": signature, "isolated_call": format!("{:?}", o)}));
                match o {
                    SingleOutcome::Completed(r) => {
                        summary.push_str(&format!(
                            " | isolated direct call on a 256 MiB stack completed ({}) after exceeding {} look-ups: blow-up rather than unbounded recursion",
                            r,
                            real::FUEL
                        ));
                    }
                    SingleOutcome::Died(why) => {
                        summary.push_str(&format!(" | confirmed: an isolated process making the direct call died: {}", why))
                    }
                    SingleOutcome::Hung => summary.push_str(" | confirmed: an isolated direct call did not answer within 20 s"),
                }
            }
            "DN" => {
                // the pre-screen saw a diverging sub-call; confirm per helper
                let mut any = false;
                for (op, fname) in [("I", "intersect_types"), ("C", "compute_complement")] {
                    let o = run_single(op, &a, &b, 20.0);
                    confirmations.push(json!({"signature": signature, "helper": fname, "isolated_call": format!("{:?}", o)}));
                    if !matches!(o, SingleOutcome::Completed(_)) {
                        any = true;
                        violations.push(Violation {
                            signature: format!("diverges {}({}, {})", fname, a, b),
                            summary: format!("{} | confirmed in an isolated process: {:?}", summary, o),
                            replay: json!({"kind": "DN", "op": op, "a": a, "b": b}),
                        });
                    }
                }
                let _ = any;
                continue;
            }
            _ => {}
        }
        signature = signature.to_string();
        violations.push(Violation { signature, summary, replay: v["replay"].clone() });
    }
    // culprit calls that killed a worker and were skipped in the bulk run
    for s in &skip {
        let fname = if s.2 == "I" { "intersect_types" } else { "compute_complement" };
        violations.push(Violation {
            signature: format!("diverges {}({}, {})", fname, s.3, s.4),
            summary: format!(
                "{}({}, {}) killed the worker process; isolated re-run: {} (not pre-screened, not shrunk)",
                fname, s.3, s.4, s.5
            ),
            replay: json!({"kind": "DN", "op": s.2, "a": s.3, "b": s.4}),
        });
    }
    if let Some(o) = coverage.as_object_mut() {
        o.insert("worker_restarts".into(), json!(restarts));
        o.insert("worker_deaths_not_caused_by_an_input".into(), json!(external_deaths));
        o.insert("calls_that_killed_a_worker".into(), json!(skip.len()));
        o.insert("isolated_confirmations".into(), json!(confirmations));
    }
    let _ = std::fs::remove_dir_all(&work);
    let assumptions: Vec<String> = result["assumptions"]
        .as_array()
        .map(|a| a.iter().filter_map(|s| s.as_str().map(|s| s.to_string())).collect())
        .unwrap_or_default();
    if let Some(e) = result["machinery_error"].as_str() {
        return Err(e.to_string());
    }
    Ok(Report { property: "C09", level: "exploration", coverage, assumptions, violations })
}

// ==========================================================================================
// Worker child.

struct Sink {
    rows: std::fs::File,
    progress: std::fs::File,
}

thread_local! {
    static MARKER: std::cell::RefCell<Option<std::fs::File>> = const { std::cell::RefCell::new(None) };
}

fn write_marker(work: &Path, text: &str) {
    use std::os::unix::fs::FileExt;
    MARKER.with(|m| {
        let mut m = m.borrow_mut();
        if m.is_none() {
            let idx = rayon::current_thread_index().unwrap_or(999);
            *m = std::fs::OpenOptions::new()
                .create(true)
                .write(true)
                .truncate(true)
                .open(work.join(format!("marker-{}", idx)))
                .ok();
        }
        if let Some(f) = m.as_ref() {
            let mut buf = text.as_bytes().to_vec();
            buf.push(b'\n');
            if buf.len() < 1024 {
                buf.resize(1024, b' ');
            }
            let _ = f.write_at(&buf, 0);
        }
    });
}

fn child_main(tier: Tier, work: &Path) -> i32 {
    let started = Instant::now();
    let budget_s: f64 = std::env::var("C09_BUDGET_S").ok().and_then(|s| s.parse().ok()).unwrap_or(25.0);
    rayon::ThreadPoolBuilder::new().stack_size(STACK).build_global().ok();
    let params = params_for(tier);
    let work = work.to_path_buf();
    let r = std::thread::Builder::new()
        .stack_size(STACK)
        .spawn(move || child_body(tier, &work, params, started, budget_s))
        .unwrap()
        .join();
    match r {
        Ok(Ok(())) => 0,
        Ok(Err(e)) => {
            eprintln!("c09 child: {}", e);
            3
        }
        Err(_) => {
            eprintln!("c09 child: panicked: {}", crate::sim::system::take_panic());
            4
        }
    }
}

fn child_body(tier: Tier, work: &PathBuf, params: Params, started: Instant, budget_s: f64) -> Result<(), String> {
    let u = Universe::build(params.clone());
    let n = u.n();
    let t_universe = started.elapsed().as_secs_f64();

    // culprit calls to skip
    let mut skip: HashSet<(u32, u32, String)> = HashSet::new();
    let mut skip_why: Vec<(u32, u32, String, String)> = vec![];
    if let Ok(text) = std::fs::read_to_string(work.join("skip.json")) {
        if let Ok(J::Array(a)) = serde_json::from_str::<J>(&text) {
            for s in a {
                let (i, j) = (s[0].as_u64().unwrap_or(0) as u32, s[1].as_u64().unwrap_or(0) as u32);
                let op = s[2].as_str().unwrap_or("").to_string();
                skip.insert((i, j, op.clone()));
                skip_why.push((i, j, op, s[3].as_str().unwrap_or("").to_string()));
            }
        }
    }
    // rows persisted by a previous incarnation
    let mut done: BTreeMap<u32, Row> = BTreeMap::new();
    if let Ok(text) = std::fs::read_to_string(work.join("rows.jsonl")) {
        for line in text.lines() {
            if let Ok(j) = serde_json::from_str::<J>(line) {
                if let Some(r) = Row::from_json(&j) {
                    done.insert(r.i, r);
                }
            }
        }
    }
    let sink = Mutex::new(Sink {
        rows: std::fs::OpenOptions::new().create(true).append(true).open(work.join("rows.jsonl")).map_err(|e| e.to_string())?,
        progress: std::fs::OpenOptions::new().create(true).append(true).open(work.join("progress.log")).map_err(|e| e.to_string())?,
    });
    {
        let mut s = sink.lock().unwrap();
        let _ = writeln!(s.progress, "universe {} types {} values in {:.1}s wall / {:.1}s cpu", n, u.vals.len(), t_universe, cpu_s());
    }
    {
        // heartbeat: progress.log grows while the work counter moves
        let path = work.join("progress.log");
        std::thread::spawn(move || {
            let mut last = u64::MAX;
            loop {
                std::thread::sleep(Duration::from_millis(1000));
                let now = TICK.load(std::sync::atomic::Ordering::Relaxed);
                if now != last {
                    last = now;
                    if let Ok(mut f) = std::fs::OpenOptions::new().append(true).open(&path) {
                        let _ = writeln!(f, "hb {}", now);
                    }
                }
            }
        });
    }
    // rows in seed-rotated order (results do not depend on the order)
    let rot = (crate::infra::seed().rem_euclid(n.max(1) as i64)) as usize;
    let todo: Vec<usize> = (0..n).map(|k| (k + rot) % n).filter(|i| !done.contains_key(&(*i as u32))).collect();
    // leave time for the post-processing phases
    let row_deadline = budget_s * 0.85;
    let trans_limit = u.trans_limit;
    let wdir = work.clone();
    let uref = &u;
    let marker = move |i: u32, j: u32, op: &str| {
        write_marker(&wdir, &format!("{} {} {}\n{}\n{}", i, j, op, uref.types[i as usize], uref.types[j as usize]));
    };
    let cx = rows::RowCtx { u: &u, skip: &skip, marker: Some(&marker), trans_limit };
    // rows are handed out in order (lightest left operand first) from a shared counter, so that a
    // run stopped by the budget has completed a prefix of the order (plus the rows in flight)
    let next = std::sync::atomic::AtomicUsize::new(0);
    let collected: Mutex<Vec<Row>> = Mutex::new(vec![]);
    let workers = rayon::current_num_threads().max(1);
    (0..workers).into_par_iter().for_each(|_| {
        loop {
            let k = next.fetch_add(1, std::sync::atomic::Ordering::Relaxed);
            if k >= todo.len() || started.elapsed().as_secs_f64() > row_deadline {
                break;
            }
            let i = todo[k];
            let row = rows::compute_row(&cx, i);
            let line = serde_json::to_string(&row.to_json()).unwrap();
            {
                let mut s = sink.lock().unwrap();
                let _ = writeln!(s.rows, "{}", line);
                let _ = writeln!(s.progress, "D {}", i);
            }
            collected.lock().unwrap().push(row);
        }
    });
    let new_rows: Vec<Row> = collected.into_inner().unwrap();
    for r in new_rows {
        done.insert(r.i, r);
    }
    {
        let mut s = sink.lock().unwrap();
        let _ = writeln!(s.progress, "rows done {} of {}", done.len(), n);
    }
    let universe_note = format!("universe built at {:.1}s wall", t_universe);
    let result = post_process(tier, &u, &done, &skip_why, started, budget_s, &sink, universe_note);
    std::fs::write(work.join("result.json"), serde_json::to_string(&result).unwrap()).map_err(|e| e.to_string())?;
    Ok(())
}

// ==========================================================================================
// Post-processing: reflexivity, transitivity, shrinking, report pieces.

struct Core {
    kind_code: String,
    signature: String,
    a: Ty,
    b: Ty,
    c: Option<Ty>,
    count: u64,
    first: String,
}

#[allow(clippy::too_many_arguments)]
fn post_process(
    tier: Tier,
    u: &Universe,
    done: &BTreeMap<u32, Row>,
    skip_why: &[(u32, u32, String, String)],
    started: Instant,
    budget_s: f64,
    sink: &Mutex<Sink>,
    universe_note: String,
) -> J {
    use rows::*;
    let n = u.n();
    let phases: std::cell::RefCell<Vec<String>> = std::cell::RefCell::new(vec![]);
    let note = |s: &str| {
        let mut k = sink.lock().unwrap();
        let line = format!("{} at {:.1}s wall / {:.1}s cpu", s, started.elapsed().as_secs_f64(), cpu_s());
        let _ = writeln!(k.progress, "{}", line);
        phases.borrow_mut().push(line);
    };
    phases.borrow_mut().push(universe_note);
    note("rows done");
    let all_rows = done.len() == n;
    let mut tot = [0u64; 24];
    let mut cores: BTreeMap<String, Core> = BTreeMap::new();
    let mut fails_by_kind: BTreeMap<String, u64> = BTreeMap::new();
    for r in done.values() {
        for k in 0..24 {
            tot[k] += r.counts[k];
        }
        for ((k, a, b), (cnt, first_j)) in &r.cores {
            *fails_by_kind.entry(k.clone()).or_default() += cnt;
            let (Ok(ta), Ok(tb)) = (parse_ty(a), parse_ty(b)) else { continue };
            let sig = if k == "R" {
                format!("{} <=> {}", a, b)
            } else {
                Kind::from_code(k).map(|kk| kk.signature(&ta, &tb)).unwrap_or_default()
            };
            let first = format!("{}  vs  {}", u.types[r.i as usize], u.types[*first_j as usize]);
            let e = cores.entry(sig.clone()).or_insert(Core {
                kind_code: k.clone(),
                signature: sig,
                a: ta,
                b: tb,
                c: None,
                count: 0,
                first: first.clone(),
            });
            e.count += cnt;
        }
    }

    // --- transitivity (over the types with index < trans_limit) ------------------------------------
    let compat_of = |i: u32, j: u32| -> Option<bool> {
        let r = done.get(&i)?;
        if r.noanswer.binary_search(&j).is_ok() {
            return None;
        }
        Some(r.compat.binary_search(&j).is_ok())
    };
    let unsound_of = |i: u32, j: u32| -> bool {
        done.get(&i).map(|r| r.unsound.binary_search(&j).is_ok()).unwrap_or(false)
    };
    let trans_deadline = budget_s * 0.93;
    let rows_vec: Vec<&Row> = done.values().filter(|r| (r.i as usize) < u.trans_limit).collect();
    let trans: Vec<(Vec<(u32, u32, u32)>, u64, u64, u64, bool)> = rows_vec
        .par_iter()
        .map(|ra| {
            let a = ra.i;
            let mut out = vec![];
            let (mut checked, mut failed, mut explained) = (0u64, 0u64, 0u64);
            if started.elapsed().as_secs_f64() > trans_deadline {
                return (out, 0, 0, 0, true);
            }
            for &b in &ra.compat {
                if b == a {
                    continue;
                }
                tick();
                let Some(rb) = done.get(&b) else { continue };
                for &c in &rb.compat {
                    if c == b || c == a {
                        continue;
                    }
                    if let Some(ac) = compat_of(a, c) {
                        checked += 1;
                        if !ac {
                            failed += 1;
                            if unsound_of(a, b) || unsound_of(b, c) {
                                explained += 1;
                            } else if out.len() < 64 {
                                out.push((a, b, c));
                            }
                        }
                    }
                }
            }
            (out, checked, failed, explained, false)
        })
        .collect();
    let mut triples: Vec<(u32, u32, u32)> = vec![];
    let (mut triples_checked, mut triples_failed, mut triples_explained) = (0u64, 0u64, 0u64);
    let mut trans_capped = false;
    for (o, c, f, x, capped) in trans {
        triples_checked += c;
        triples_failed += f;
        triples_explained += x;
        trans_capped |= capped;
        triples.extend(o);
    }
    note("transitivity checked");
    let empty_skip: HashSet<(u32, u32, String)> = HashSet::new();
    let cx0 = rows::RowCtx { u, skip: &empty_skip, marker: None, trans_limit: u.trans_limit };
    let mut shrink_capped = false;
    let shrink_deadline = budget_s * 0.97;
    {
        // candidates are judged directly against the real code (not looked up in the completed
        // rows), so a core depends on the failing triple only, never on which rows a run completed
        let direct = |x: u32, y: u32| -> Option<bool> {
            match real::call_compatible(&u.program, u.ids[x as usize], u.ids[y as usize]) {
                real::Called::Ok(r) => Some(r),
                _ => None,
            }
        };
        let tf = |a: &Ty, b: &Ty, c: &Ty| -> bool {
            match (u.index.get(a), u.index.get(b), u.index.get(c)) {
                (Some(&x), Some(&y), Some(&z)) => {
                    x != y && y != z && x != z
                        && direct(x, y) == Some(true)
                        && direct(y, z) == Some(true)
                        && direct(x, z) == Some(false)
                }
                _ => false,
            }
        };
        let mut sorted = triples.clone();
        sorted.sort_by_key(|(a, b, c)| {
            (u.types[*a as usize].weight() + u.types[*b as usize].weight() + u.types[*c as usize].weight(), *a, *b, *c)
        });
        let chunk = (sorted.len() / 64).max(64);
        let results: Vec<(Vec<((Ty, Ty, Ty), (u32, u32, u32))>, bool)> = sorted
            .par_chunks(chunk)
            .map(|ch| {
                let mut memo = HashMap::new();
                let mut out = vec![];
                let mut capped = false;
                for &(a, b, c) in ch {
                    if started.elapsed().as_secs_f64() > shrink_deadline {
                        capped = true;
                        break;
                    }
                    tick();
                    let core = shrink::core_of_triple(
                        &tf,
                        (u.types[a as usize].clone(), u.types[b as usize].clone(), u.types[c as usize].clone()),
                        &mut memo,
                    );
                    out.push((core, (a, b, c)));
                }
                (out, capped)
            })
            .collect();
        for (list, capped) in results {
            shrink_capped |= capped;
            for (core, (a, b, c)) in list {
                // a core one of whose steps is a reported unsound pair is that pair's root cause
                if let (Some(&x), Some(&y), Some(&z)) = (u.index.get(&core.0), u.index.get(&core.1), u.index.get(&core.2)) {
                    let _ = z;
                    let unsound_direct = |p: u32, q: u32| -> bool {
                        let e = rows::eval_ij(&cx0, p as usize, q as usize, false);
                        e.fails.iter().any(|(k, _, _)| *k == Kind::Unsound)
                    };
                    if unsound_direct(x, y) || unsound_direct(y, z) {
                        triples_explained += 1;
                        continue;
                    }
                }
                let sig = format!("{} <= {} <= {}", core.0, core.1, core.2);
                let first = format!("{} <= {} <= {}", u.types[a as usize], u.types[b as usize], u.types[c as usize]);
                let e = cores.entry(sig.clone()).or_insert(Core {
                    kind_code: "T".into(),
                    signature: sig,
                    a: core.0.clone(),
                    b: core.1.clone(),
                    c: Some(core.2.clone()),
                    count: 0,
                    first,
                });
                e.count += 1;
            }
        }
    }
    note("transitivity shrunk");

    // --- violations (each core re-validated stand-alone, in a fresh Program) ---------------------
    let core_list: Vec<&Core> = cores.values().collect();
    let validated: Vec<J> = core_list
        .par_iter()
        .map(|c| {
            let replay = json!({
                "kind": c.kind_code,
                "a": c.a.to_string(),
                "b": c.b.to_string(),
                "c": c.c.as_ref().map(|t| t.to_string()),
            });
            let (still, text, witness) = replay_with(&u.vals, &replay);
            let mut replay = replay;
            if let Some(w) = witness {
                replay["witness"] = json!(w);
            }
            json!({
                "signature": c.signature,
                "summary": format!(
                    "{} [{} failing input(s) shrink to this core; first: {}]{}",
                    text,
                    c.count,
                    c.first,
                    if still { "" } else { " [NOT REPRODUCED stand-alone]" }
                ),
                "replay": replay,
                "reproduced": still,
            })
        })
        .collect();
    let not_reproduced: Vec<String> = validated
        .iter()
        .filter(|v| v["reproduced"] == json!(false))
        .filter_map(|v| v["signature"].as_str().map(|s| s.to_string()))
        .collect();
    note("cores validated");

    // --- samples --------------------------------------------------------------------------------
    let mut samples = vec![];
    {
        let mut want: Vec<(usize, usize)> = vec![];
        let mut seen_rel = 0;
        for r in done.values() {
            for &j in &r.compat {
                if j != r.i && seen_rel < 3 && u.types[r.i as usize].depth() >= 1 {
                    want.push((r.i as usize, j as usize));
                    seen_rel += 1;
                }
            }
            if seen_rel >= 3 {
                break;
            }
        }
        for (i, j) in [(n / 3, n / 2), (n / 2, n / 3), (n - 1, n - 2)] {
            want.push((i, j));
        }
        for (i, j) in want {
            let e = judge::eval_standalone(&u.vals, &u.types[i], &u.types[j], &Opts::default());
            samples.push(json!({
                "A": u.types[i].to_string(),
                "B": u.types[j].to_string(),
                "is_compatible": e.compat,
                "types_overlap": e.overlap,
                "enumerated_values_of_A": u.in_list[i].len(),
                "enumerated_values_of_B": u.in_list[j].len(),
                "common_value": e.common.map(|v| u.vals.show(v)),
                "alarms": e.fails.iter().map(|(k, _, _)| k.code()).collect::<Vec<_>>(),
            }));
        }
    }

    for v in validated.iter().take(4) {
        samples.push(json!({"failing_case_minimal_core": v["signature"], "judgement": v["summary"]}));
    }
    let represented: u64 = (0..u.vals.len() as u32).map(|v| u.vals.represented(v)).sum();
    fails_by_kind.insert("T".into(), triples_failed);
    let mut caps: Vec<String> = vec![];
    if !all_rows {
        let complete_prefix = (0..n as u32).take_while(|i| done.contains_key(i)).count();
        caps.push(format!(
            "time budget: {} of {} rows (left operands A) completed, among them every A with index < {} (types are ordered lightest first); every completed row is judged against all {} right operands",
            done.len(), n, complete_prefix, n
        ));
    }
    if trans_capped {
        caps.push("time budget: transitivity was not checked for every completed row".into());
    }
    if shrink_capped {
        caps.push("time budget: not every failing triple was shrunk".into());
    }
    let p = &u.params;
    let coverage = json!({
        "evaluations": tot[C_EVAL],
        "distinct_nontrivial": tot[C_NONTRIVIAL],
        "rule": "Types: every closed, contractive term (compiler normal form for unions) with nesting depth <= universe.depth and description weight <= universe.weight, plus every term of depth <= universe.full_depth whatever its weight, plus the one-step unfoldings of the recursive types of weight <= universe.unroll_weight; ordered lightest first and registered through Program::register_type/register_tuple. Cases: all ordered pairs (A,B) of the universe; each pair is one evaluation: is_compatible and types_overlap always; intersect_types and compute_complement when the relation answered true in either mode, or A and B share an enumerated value, or either type is recursive and some top-level variants of A and B are tuples of equal name and arity (the only inputs on which the helpers do anything but return A whole / never). A pair counts as non-trivial when A != B and either is_compatible(A,B) = true with at least one enumerated value of A to check, or A and B share an enumerated value (so overlap and intersection are actually constrained). Pairs are distinct by construction (terms are de-duplicated structurally). Reflexivity: same id, and A against its copy with every union's variants reversed. Transitivity: all triples A<=B<=C among the types of index < universe.transitivity_over_first.",
        "exhaustive": all_rows && !trans_capped && !shrink_capped,
        "caps_hit": caps,
        "universe": {
            "depth": p.depth, "weight": p.weight, "full_depth": p.full_depth, "unroll_weight": p.unroll_weight,
            "weight_definition": "1 per node (ref: 2), +1 for the tuple name A, +1 per field label",
            "types": n, "types_enumerated": u.n_enumerated, "types_unfolded": u.n_unrolled,
            "transitivity_over_first": u.trans_limit,
            "recursive_types": u.cyclic.iter().filter(|c| **c).count(),
            "types_with_callable_or_process": u.types.iter().filter(|t| t.has_fun_or_proc()).count(),
            "vocabulary": "int bin ref; tuples: names {none,A}, labels {none,x,y} (no repeated label), arity 0-2; partials: named/unnamed, 0-2 fields labelled x/y; unions: 2-3 pairwise distinct non-union variants in EVERY order; Cycle(k) to the k-th enclosing union/callable, guarded by a tuple/partial/callable/process constructor; callables P->R (receive = never, as for every function type written in source); processes with both directions",
            "registry_types": u.program.get_types().len(), "registry_tuples": u.program.get_tuples().len(),
        },
        "values": {
            "canonical_values": u.vals.len(),
            "v_d_values_represented": represented,
            "base": "complete V_1 (names {none,A,B}, labels {none,x,y} without repeats, arity 0-2 over 0 / 0x / ref) and complete V_2 whose inner tuples have arity <= 1",
            "base_values": u.n_base_values,
            "type_directed": "plus up to inhabitant_cap constructed inhabitants per sub-term of every universe type (recursive types unfolded twice), and one function / process token per closed callable / process sub-term of weight <= token_weight",
            "tokens": u.vals.tokens.len(),
            "token_weight": u.params.token_weight,
            "canonical_note": "no type distinguishes two integers or two binaries, so 0 stands for {0,1} and 0x for {0x,0x00}",
        },
        "rows_completed": done.len(),
        "is_compatible_true": tot[C_COMPAT],
        "types_overlap_true": tot[C_OVERLAP],
        "pairs_with_common_enumerated_value": tot[C_COMMON],
        "narrowing_pairs_called": tot[C_NARROW],
        "narrowing_pairs_skipped_because_relation_diverges": tot[C_NARROW_SKIP],
        "intersect_values_judged": tot[C_IJUDGED],
        "complement_values_judged": tot[C_CJUDGED],
        "intersect_results_abstained_not_closed": tot[C_IABST],
        "complement_results_abstained_not_closed": tot[C_CABST],
        "reflexivity": {"same_id_true": tot[C_REFL_SAME], "union_reversed_copies_checked": tot[C_REFL_COPY], "rejected": fails_by_kind.get("R").copied().unwrap_or(0)},
        "unfolded_copies_informational": {"ordered_pairs": tot[C_UNROLL_PAIRS], "is_compatible_false": tot[C_UNROLL_REJECTED]},
        "transitivity": {"triples_checked": triples_checked, "failed": triples_failed, "explained_by_a_reported_unsound_step": triples_explained, "shrunk": triples.len()},
        "failing_instances_all_kinds": tot[C_FAIL_BASE],
        "failing_instances_derived_not_reported": tot[C_DERIVED],
        "failing_inputs_by_kind_reported": fails_by_kind,
        "minimal_cores": cores.len(),
        "shrinker_on_demand_judgements": tot[C_SHRINK_EVALS],
        "shrinker_candidates_outside_universe_not_followed": tot[C_OUTSIDE],
        "samples": samples,
    });
    let mut coverage = coverage;
    if std::env::var("C09_TIMING").is_ok() {
        // wall-clock / CPU figures are a debugging aid only; they are not part of the evidence
        coverage["timing_s"] = json!({"phases": phases.borrow().clone(), "total_child": started.elapsed().as_secs_f64()});
    }
    let assumptions = vec![
        "Type values: int/bin/ref by kind; Tuple by name, arity, labels position-wise and field-wise membership; Partial by name (if any) and, per listed field, some field of the value carrying that label whose value is a member; Union by any variant; Cycle(k) re-enters the k-th enclosing union/callable (the compiler's convention in typing.rs / resolve_function_cycles).".to_string(),
        "Function tokens: a function with principal type P0->R0 is definitely in P->R when that is its own type or P ⊆ P0 and R0 ⊆ R follow syntactically; definitely not when an enumerated data value is in P but not P0, or in R0 but not R; otherwise unknown, and unknown never feeds an alarm.".to_string(),
        "Process tokens: the awaited result (receive) is covariant; the variance of `send` is not fixed by the documentation (types.rs checks it covariantly), so membership is refuted only when the two send types are incomparable.".to_string(),
        "Values and tuple types with a repeated field label are not generated (the documentation does not say which field a partial constrains).".to_string(),
        "Narrowing results that are not closed terms (a Cycle left dangling after its union was taken apart) are outside the property's domain and are counted, not judged.".to_string(),
        "Unions are generated in the compiler's normal form only (>= 2 distinct variants, no directly nested union); Union[] appears only as a callable's receive type and as a narrowing result.".to_string(),
        "A narrowing failure on the very pair (or minimal core) on which the relation itself fails (intersect: types_overlap false; complement: is_compatible true) is the relation's root cause and is reported once, under the relation's signature; a transitivity failure one of whose two steps is a reported unsound pair likewise.".to_string(),
    ];
    let mut out = json!({
        "coverage": coverage,
        "assumptions": assumptions,
        "violations": validated,
        "skip_why": skip_why.iter().map(|s| json!([s.0, s.1, s.2, s.3])).collect::<Vec<_>>(),
    });
    if !not_reproduced.is_empty() {
        out["machinery_error"] = json!(format!(
            "minimal cores that fail in the bulk run but not stand-alone (results depend on registry contents?): {:?}",
            not_reproduced
        ));
    }
    let _ = tier;
    out
}

// ==========================================================================================
// Replay.

fn base_vals_for(types: &[&Ty]) -> vals::Values {
    let mut v = vals::Values::default();
    universe::base_values(&mut v);
    for t in types {
        vals::collect_tokens(&mut v, t, 99);
    }
    for t in types {
        vals::inhabitants(&mut v, t, &vec![], 2, 6);
    }
    v.finalize();
    v
}

/// Re-run one recorded case against the real code. Returns (still violates, observed-vs-expected).
fn replay_with(vals: &vals::Values, r: &J) -> (bool, String, Option<String>) {
    let kind = r["kind"].as_str().unwrap_or("");
    let (Ok(a), Ok(b)) = (parse_ty(r["a"].as_str().unwrap_or("")), parse_ty(r["b"].as_str().unwrap_or(""))) else {
        return (false, "unparsable replay".into(), None);
    };
    match kind {
        "T" => {
            let Ok(c) = parse_ty(r["c"].as_str().unwrap_or("")) else {
                return (false, "unparsable replay".into(), None);
            };
            let mut p = quiver_core::program::Program::new();
            let (ia, ib, ic) = (real::register(&mut p, &a), real::register(&mut p, &b), real::register(&mut p, &c));
            let ab = real::call_compatible(&p, ia, ib);
            let bc = real::call_compatible(&p, ib, ic);
            let ac = real::call_compatible(&p, ia, ic);
            let still = ab == real::Called::Ok(true) && bc == real::Called::Ok(true) && ac == real::Called::Ok(false);
            (
                still,
                format!(
                    "transitivity: observed is_compatible(A,B)={:?}, is_compatible(B,C)={:?}, is_compatible(A,C)={:?}; expected is_compatible(A,C)=true when the first two hold",
                    ab, bc, ac
                ),
                None,
            )
        }
        "R" => {
            let mut p = quiver_core::program::Program::new();
            let (ia, ib) = (real::register(&mut p, &a), real::register(&mut p, &b));
            let ab = real::call_compatible(&p, ia, ib);
            let still = ab == real::Called::Ok(false) && reverse_unions(&a) == b;
            (
                still,
                format!(
                    "reflexivity: B is A with every union's variant order reversed (different ids, same type); observed is_compatible(A,B)={:?}, expected true",
                    ab
                ),
                None,
            )
        }
        _ => {
            let Some(k) = Kind::from_code(kind) else { return (false, format!("unknown kind {}", kind), None) };
            let narrowing = rows::needs_narrowing(k);
            let e = judge::eval_standalone(
                vals,
                &a,
                &b,
                &Opts { force_narrowing: narrowing, no_narrowing: !narrowing, ..Default::default() },
            );
            let hit = e.fails.iter().find(|(kk, _, _)| *kk == k);
            let text = match (k, hit) {
                (_, None) => format!(
                    "{}: no longer observed (is_compatible={:?}, types_overlap={:?})",
                    k.describe(), e.compat, e.overlap
                ),
                (Kind::Unsound, Some((_, v, _))) => format!(
                    "observed is_compatible(A,B)=true; expected false: the value {} is in A and not in B",
                    v.map(|v| vals.show(v)).unwrap_or_default()
                ),
                (Kind::Overlap, Some((_, v, _))) => format!(
                    "observed types_overlap(A,B)=false; expected true: the value {} is in both A and B",
                    v.map(|v| vals.show(v)).unwrap_or_default()
                ),
                (Kind::Intersect, Some((_, v, d))) => format!(
                    "observed intersect_types(A,B)={}; expected a type containing {} (it is in both A and B)",
                    d,
                    v.map(|v| vals.show(v)).unwrap_or_default()
                ),
                (Kind::Complement, Some((_, v, d))) => format!(
                    "observed compute_complement(A,B)={}; expected a type containing {} (it is in A and not in B)",
                    d,
                    v.map(|v| vals.show(v)).unwrap_or_default()
                ),
                (_, Some((_, _, d))) => format!("{} {}", k.describe(), d),
            };
            let witness = hit.and_then(|(_, v, _)| v.map(|v| vals.show(v)));
            (hit.is_some(), text, witness)
        }
    }
}

pub fn replay(replay: &J) -> Result<bool, String> {
    let kind = replay["kind"].as_str().unwrap_or("").to_string();
    let a_s = replay["a"].as_str().unwrap_or("").to_string();
    let b_s = replay["b"].as_str().unwrap_or("").to_string();
    println!("  A = {}", a_s);
    println!("  B = {}", b_s);
    if let Some(c) = replay["c"].as_str() {
        println!("  C = {}", c);
    }
    if kind == "DN" {
        let op = replay["op"].as_str().unwrap_or("I");
        let o = run_single(op, &a_s, &b_s, 20.0);
        println!("  observed: isolated call of helper {} -> {:?}; expected: it returns", op, o);
        return Ok(!matches!(o, SingleOutcome::Completed(_)));
    }
    if kind == "DC" || kind == "DO" {
        let op = if kind == "DC" { "RC" } else { "RO" };
        let o = run_single(op, &a_s, &b_s, 20.0);
        println!("  observed: isolated direct call -> {:?}; expected: it returns a boolean", o);
        if !matches!(o, SingleOutcome::Completed(_)) {
            return Ok(true);
        }
    }
    let r = replay.clone();
    let (tx, rx) = std::sync::mpsc::channel();
    on_big_stack(move || {
        let a = parse_ty(r["a"].as_str().unwrap_or(""));
        let b = parse_ty(r["b"].as_str().unwrap_or(""));
        let c = r["c"].as_str().and_then(|s| parse_ty(s).ok());
        let (Ok(a), Ok(b)) = (a, b) else {
            let _ = tx.send((false, "unparsable replay".to_string()));
            return;
        };
        let mut ts: Vec<&Ty> = vec![&a, &b];
        if let Some(c) = &c {
            ts.push(c);
        }
        let mut v = base_vals_for(&ts);
        if let Some(w) = r["witness"].as_str() {
            // the recorded witness value (it may come from the bulk run's larger value universe)
            if v.parse(w).is_ok() {
                v.finalize();
            }
        }
        let (still, text, _) = replay_with(&v, &r);
        let _ = tx.send((still, text));
    });
    let (still, text) = rx.recv().map_err(|e| e.to_string())?;
    println!("  {}", text);
    Ok(still)
}

// ==========================================================================================
// Debugging aid (C09_PROBE=...).

fn probe(arg: &str) {
    let parts: Vec<&str> = arg.split('|').collect();
    match parts[0] {
        "count" => {
            let d: usize = parts[1].parse().unwrap();
            let wmax: usize = parts[2].parse().unwrap();
            let mut e = ty::Enumerator::new(ty::Vocab::full());
            let mut total = 0;
            for w in 1..=wmax {
                let n = e.exact(d, w, &vec![]).len();
                total += n;
                println!("depth<={} weight=={}: {} (cum {})", d, w, n, total);
            }
        }
        "pair" => {
            let a = parse_ty(parts[1]).unwrap();
            let b = parse_ty(parts[2]).unwrap();
            let v = base_vals_for(&[&a, &b]);
            println!("a wf={} b wf={} values={}", a.well_formed(false), b.well_formed(false), v.len());
            let e = judge::eval_standalone(&v, &a, &b, &Opts { force_narrowing: true, ..Default::default() });
            println!("compat={:?} overlap={:?} common={:?}", e.compat, e.overlap, e.common.map(|x| v.show(x)));
            for (k, w, d) in &e.fails {
                println!("ALARM {} witness={:?} detail={}", k.signature(&a, &b), w.map(|x| v.show(x)), d);
            }
            println!("narrowing called={} skipped_div={} I-abst={} C-abst={}", e.narrowing_called, e.narrowing_skipped_divergent, e.intersect_abstained, e.complement_abstained);
        }
        "universe" => {
            let t0 = Instant::now();
            rayon::ThreadPoolBuilder::new().stack_size(STACK).build_global().ok();
            let tier = if parts.get(1) == Some(&"thorough") { Tier::Thorough } else { Tier::Quick };
            let u = Universe::build(params_for(tier));
            println!(
                "types {} (enumerated {}, unfolded {}), values {} (base {}), tokens {}, registry {} types, built in {:.1}s",
                u.n(), u.n_enumerated, u.n_unrolled, u.vals.len(), u.n_base_values, u.vals.tokens.len(),
                u.program.get_types().len(), t0.elapsed().as_secs_f64()
            );
            let empty = u.in_list.iter().filter(|l| l.is_empty()).count();
            println!("types without an enumerated inhabitant: {}", empty);
            for (i, t) in u.types.iter().enumerate() {
                if u.in_list[i].is_empty() {
                    println!("  e.g. uninhabited-in-V: {}", t);
                    break;
                }
            }
        }
        "bench" => {
            rayon::ThreadPoolBuilder::new().stack_size(STACK).build_global().ok();
            let u = Universe::build(params_for(Tier::Quick));
            let n = u.n().min(1500);
            let c0 = cpu_s();
            let mut t = 0u64;
            let mut div = 0u64;
            for i in 0..n {
                for j in 0..n {
                    match real::call_compatible(&u.program, u.ids[i], u.ids[j]) {
                        real::Called::Ok(true) => t += 1,
                        real::Called::Diverged => div += 1,
                        _ => {}
                    }
                }
            }
            let c1 = cpu_s();
            println!("max look-ups used by an answering call: {}", real::MAX_USED.with(|m| m.get()));
            println!("fuel-wrapped is_compatible: {} pairs, {} true, {} diverged, {:.2} cpu-s => {:.0} ns/call", n * n, t, div, c1 - c0, (c1 - c0) * 1e9 / (n * n) as f64);
            let mut t2 = 0u64;
            for i in 0..n {
                for j in 0..n {
                    if u.cyclic[i] && u.cyclic[j] { continue; }
                    if real::raw_compatible(&u.program, u.ids[i], u.ids[j]) { t2 += 1; }
                }
            }
            let c2 = cpu_s();
            println!("raw is_compatible (acyclic pairs only): {} true, {:.2} cpu-s", t2, c2 - c1);
            let skip = HashSet::new();
            let cx = rows::RowCtx { u: &u, skip: &skip, marker: None, trans_limit: u.trans_limit };
            let step = (u.n() / 150).max(1);
            let sel: Vec<usize> = (0..u.n()).step_by(step).collect();
            let pairs = (sel.len() * u.n()) as f64;
            let c3 = cpu_s();
            for &i in &sel { for j in 0..u.n() { std::hint::black_box(rows::eval_ij(&cx, i, j, false)); } }
            let c4 = cpu_s();
            println!("eval_pair without narrowing: {:.0} ns/pair", (c4 - c3) * 1e9 / pairs);
            for &i in &sel { for j in 0..u.n() { std::hint::black_box(rows::eval_ij(&cx, i, j, true)); } }
            let c5 = cpu_s();
            println!("eval_pair with narrowing: {:.0} ns/pair", (c5 - c4) * 1e9 / pairs);
            let mut fails = 0u64;
            for &i in &sel { let r = rows::compute_row(&cx, i); fails += r.counts[rows::C_FAIL_BASE]; }
            let c6 = cpu_s();
            println!("max look-ups used by an answering call: {}", real::MAX_USED.with(|m| m.get()));
            println!("compute_row (with shrinking; {} failing instances): {:.0} ns/pair", fails, (c6 - c5) * 1e9 / pairs);
        }
        _ => println!("unknown probe"),
    }
}
