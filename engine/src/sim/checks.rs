//! The Engine-A property checks: C03, C04 (more are added in their own modules).

use super::driver::{self, Plan};
use super::explore::Monitor;
use super::monitors::StdMonitor;
use super::scenarios::{self, Scenario};
use super::system::Config;
use super::Outcome;
use crate::infra::{Report, Tier};

pub fn grid(sc: &Scenario, workers: &[usize], quanta: &[usize], late: bool) -> Vec<Config> {
    let mut v = vec![];
    for &w in workers {
        for &q in quanta {
            v.push(Config {
                workers: w,
                quantum: q,
                request_early: true,
                io: sc.io,
                defer_effects: false,
            });
        }
    }
    if late {
        // the other `get_result` path: the request is issued only after quiescence
        v.push(Config {
            workers: 2,
            quantum: 1000,
            request_early: false,
            io: sc.io,
            defer_effects: false,
        });
        v.push(Config {
            workers: 1,
            quantum: 1,
            request_early: false,
            io: sc.io,
            defer_effects: false,
        });
    }
    v
}

pub const ASSUME_A: &[&str] = &[
    "every execution of the threaded runtime over FIFO single-producer channels is equivalent (same per-component sequence of received messages and clock readings) to a sequence of the simulator's atomic actions E[v..], Wi:recv, Wi:run, clock, complete (DESIGN.md 4.2)",
    "std::sync::mpsc and the 30-line native transport are trusted; a panicked worker is reported at the panic, not modelled as a dead queue",
    "HashMap/HashSet iteration order is pinned to one legal order by the verif hooks (not explored)",
    "scenario programs are generated from fixed templates over the stated parameter grid; unbounded programs are out of reach",
];

fn std_monitor(_: &Scenario, _: &Config) -> Box<dyn Monitor> {
    Box::new(StdMonitor::default())
}

fn c03_oracle(_sc: &Scenario, reference: &Outcome, got: &Outcome) -> Option<(String, String)> {
    if got != reference {
        let what = if got.entry != reference.entry {
            "entry result"
        } else if got.errors != reference.errors {
            "worker/environment errors"
        } else {
            "per-process results"
        };
        return Some((
            "O-confluence".to_string(),
            format!(
                "{} differs from the reference run (W=1, quantum=1000, default schedule): got {:?}, reference {:?}",
                what, got, reference
            ),
        ));
    }
    None
}

pub fn c03(tier: Tier) -> Result<Report, String> {
    let thorough = tier == Tier::Thorough;
    let scenarios = scenarios::confluent_all(thorough);
    let plan = Plan {
        property: "C03",
        scenarios,
        configs: Box::new(move |sc| {
            if thorough {
                grid(sc, &[1, 2, 3], &[1, 2, 3, 5, 1000], true)
            } else {
                grid(sc, &[1, 2, 3], &[1, 3, 1000], true)
            }
        }),
        bound: if thorough { 3 } else { 2 },
        explicit: Box::new(move |_sc, cfg| {
            if thorough && cfg.quantum >= 5 && cfg.workers <= 2 {
                Some(300_000)
            } else {
                None
            }
        }),
        monitor: &std_monitor,
        oracle: Some(&c03_oracle),
        wall_budget_s: if thorough { 840.0 } else { 45.0 },
        assumptions: ASSUME_A.iter().map(|s| s.to_string()).collect(),
        explanation: "Stateless exploration of the real Environment/Worker/Executor under a controlled scheduler: every schedule with at most `deviation_bound_completed` deviations from the round-robin default, for every scenario x worker count x time-slice length; each run IS an implementation trace (no hand-written model), so traces_validated_against_impl = schedules. Oracle: canonical outcome (entry result, per-process results by spawn path, errors) equals the reference run; no panic/Err; no hang; poke test at quiescence.".to_string(),
    };
    driver::run_plan(plan)
}

fn conserve_monitor(_: &Scenario, _: &Config) -> Box<dyn Monitor> {
    Box::new(StdMonitor {
        conserve: true,
        ..Default::default()
    })
}

/// Parse a rendered list of `[a, b]` integer pairs: "[[0, 0], [1, 0]]".
fn parse_pairs(s: &str) -> Option<Vec<(i64, i64)>> {
    let nums: Vec<i64> = s
        .split(|c: char| !(c.is_ascii_digit() || c == '-'))
        .filter(|t| !t.is_empty())
        .map(|t| t.parse().ok())
        .collect::<Option<Vec<_>>>()?;
    if nums.len() % 2 != 0 {
        return None;
    }
    Some(nums.chunks(2).map(|c| (c[0], c[1])).collect())
}

fn c04_oracle(sc: &Scenario, reference: &Outcome, got: &Outcome) -> Option<(String, String)> {
    match sc.family {
        "fanin" => {
            let (Some(g), Some(r)) = (
                got.entry.as_deref().and_then(parse_pairs),
                reference.entry.as_deref().and_then(parse_pairs),
            ) else {
                return Some((
                    "O-log".to_string(),
                    format!("receiver log unreadable: got {:?}", got.entry),
                ));
            };
            let mut gs = g.clone();
            gs.sort();
            let mut rs = r.clone();
            rs.sort();
            if gs != rs {
                return Some((
                    "O-exactly-once".to_string(),
                    format!("received multiset {:?} differs from sent multiset {:?}", g, rs),
                ));
            }
            let mut last: std::collections::BTreeMap<i64, i64> = Default::default();
            for (sender, seq) in &g {
                if let Some(prev) = last.get(sender) {
                    if seq <= prev {
                        return Some((
                            "O-fifo".to_string(),
                            format!("messages of sender {} arrived out of send order: {:?}", sender, g),
                        ));
                    }
                }
                last.insert(*sender, *seq);
            }
            None
        }
        "fanout_race" => {
            // w must be one of the children's results; the rest is deterministic
            let (Some(g), Some(r)) = (got.entry.as_deref(), reference.entry.as_deref()) else {
                return Some(("O-log".to_string(), format!("no entry result: {:?}", got)));
            };
            let gi: Vec<&str> = g.trim_matches(|c| c == '[' || c == ']').split(", ").collect();
            let ri: Vec<&str> = r.trim_matches(|c| c == '[' || c == ']').split(", ").collect();
            if gi.len() != ri.len() || gi[1..] != ri[1..] || !ri[1..].contains(&gi[0]) {
                return Some((
                    "O-await".to_string(),
                    format!("awaited results wrong: got {}, reference {}", g, r),
                ));
            }
            None
        }
        _ => {
            if got.entry != reference.entry {
                return Some((
                    "O-log".to_string(),
                    format!(
                        "the program's own log of received messages/awaited results {:?} differs from the reference {:?}",
                        got.entry, reference.entry
                    ),
                ));
            }
            None
        }
    }
}

pub fn c04(tier: Tier) -> Result<Report, String> {
    let thorough = tier == Tier::Thorough;
    let plan = Plan {
        property: "C04",
        scenarios: scenarios::messaging_all(thorough),
        configs: Box::new(move |sc| {
            if thorough {
                grid(sc, &[1, 2, 3], &[1, 2, 5, 1000], true)
            } else {
                grid(sc, &[1, 2, 3], &[1, 1000], true)
            }
        }),
        bound: if thorough { 3 } else { 2 },
        explicit: Box::new(move |_sc, cfg| {
            if thorough && cfg.quantum >= 5 && cfg.workers <= 2 {
                Some(300_000)
            } else {
                None
            }
        }),
        monitor: &conserve_monitor,
        oracle: Some(&c04_oracle),
        wall_budget_s: if thorough { 840.0 } else { 45.0 },
        assumptions: ASSUME_A.iter().map(|s| s.to_string()).collect(),
        explanation: "Same exploration as C03 over all message-passing families (confluent or not). Oracles: no message exists twice across event queues, command queues and mailboxes (I-conserve); the receiver-side log built by the program equals the multiset sent and respects per-sender order (O-exactly-once, O-fifo, O-log); at quiescence no process waits for a spawn notification, the entry result was delivered, and the poke test (re-queue every parked select through Executor::mark_active, continue the default schedule) lets no select complete (I-lostwake).".to_string(),
    };
    driver::run_plan(plan)
}

fn heap_monitor(_: &Scenario, _: &Config) -> Box<dyn Monitor> {
    Box::new(StdMonitor {
        heap: true,
        ..Default::default()
    })
}

fn c06_oracle(sc: &Scenario, reference: &Outcome, got: &Outcome) -> Option<(String, String)> {
    if let Some(expect) = &sc.expect {
        let ok = got
            .entry
            .as_deref()
            .map(|g| expect.split(" || ").any(|e| e == g))
            .unwrap_or(false);
        if !ok {
            return Some((
                "O-bytes".to_string(),
                format!(
                    "binaries in the result do not read back the bytes they were created with: got {:?}, host-computed {:?}",
                    got.entry, expect
                ),
            ));
        }
    }
    if sc.confluent && got != reference {
        return Some((
            "O-bytes".to_string(),
            format!("outcome differs from the reference run: got {:?}, reference {:?}", got, reference),
        ));
    }
    None
}

pub fn c06(tier: Tier) -> Result<Report, String> {
    let thorough = tier == Tier::Thorough;
    let plan = Plan {
        property: "C06",
        scenarios: scenarios::bin_all(),
        configs: Box::new(move |sc| {
            if thorough {
                grid(sc, &[1, 2, 3], &[1, 2, 3, 1000], true)
            } else {
                grid(sc, &[1, 2], &[1, 2, 1000], false)
            }
        }),
        bound: if thorough { 3 } else { 2 },
        explicit: Box::new(move |_sc, cfg| {
            if thorough && cfg.quantum >= 3 && cfg.workers <= 2 {
                Some(300_000)
            } else {
                None
            }
        }),
        monitor: &heap_monitor,
        oracle: Some(&c06_oracle),
        wall_budget_s: if thorough { 840.0 } else { 45.0 },
        assumptions: ASSUME_A.iter().map(|s| s.to_string()).collect(),
        explanation: "Binary-churn scenarios (heap binaries created, shared in tuples/closures, sliced, sent, skipped/taken by filters, captured and passed at spawn, dropped in tail loops, awaited twice, left in mailboxes) under every schedule within the deviation bound, down to one instruction per time slice (quantum 1 puts a reclamation point between every two instructions). After EVERY worker action, on that worker's executor: check_refcounts() (count > 0 <=> reachable, using the repository's own root set), no reachable slot is freed, free list == freed flags without duplicates, freed slots have count 0; at quiescence after one flushing slice: no unreachable slot lingers outside the free list; result bytes equal host-computed bytes. Debug assertions of the repository (use-after-free, release underflow, refcount check at process completion) are live in the verif profile and count as I-noerr.".to_string(),
    };
    driver::run_plan(plan)
}

pub fn monitor_for(property: &str) -> (&'static driver::MonitorFactory, Option<&'static driver::OutcomeOracle>) {
    match property {
        "C03" => (&std_monitor, Some(&c03_oracle)),
        "C04" => (&conserve_monitor, Some(&c04_oracle)),
        "C06" => (&heap_monitor, Some(&c06_oracle)),
        _ => (&std_monitor, None),
    }
}
