//! The Engine-A property checks: C03, C04 (more are added in their own modules).

use super::driver::{self, Plan};
use super::explore::Monitor;
use super::monitors::StdMonitor;
use super::scenarios::{self, Scenario};
use super::system::Config;
use super::Outcome;
use crate::infra::{Report, Tier};

pub fn grid(sc: &Scenario, workers: &[usize], quanta: &[usize], late: bool) -> Vec<Config> {
    let mut v = vec![];
    for &w in workers {
        for &q in quanta {
            v.push(Config {
                workers: w,
                quantum: q,
                request_early: true,
                io: sc.io,
                defer_effects: false,
            });
        }
    }
    if late {
        // the other `get_result` path: the request is issued only after quiescence
        v.push(Config {
            workers: 2,
            quantum: 1000,
            request_early: false,
            io: sc.io,
            defer_effects: false,
        });
        v.push(Config {
            workers: 1,
            quantum: 1,
            request_early: false,
            io: sc.io,
            defer_effects: false,
        });
    }
    v
}

pub const ASSUME_A: &[&str] = &[
    "every execution of the threaded runtime over FIFO single-producer channels is equivalent (same per-component sequence of received messages and clock readings) to a sequence of the simulator's atomic actions E[v..], Wi:recv, Wi:run, clock, complete (DESIGN.md 4.2)",
    "std::sync::mpsc and the 30-line native transport are trusted; a panicked worker is reported at the panic, not modelled as a dead queue",
    "HashMap/HashSet iteration order is pinned to one legal order by the verif hooks (not explored)",
    "scenario programs are generated from fixed templates over the stated parameter grid; unbounded programs are out of reach",
];

fn std_monitor(_: &Scenario, _: &Config) -> Box<dyn Monitor> {
    Box::new(StdMonitor::default())
}

fn c03_oracle(_sc: &Scenario, reference: &Outcome, got: &Outcome) -> Option<(String, String)> {
    if got != reference {
        let what = if got.entry != reference.entry {
            "entry result"
        } else if got.errors != reference.errors {
            "worker/environment errors"
        } else {
            "per-process results"
        };
        return Some((
            "O-confluence".to_string(),
            format!(
                "{} differs from the reference run (W=1, quantum=1000, default schedule): got {:?}, reference {:?}",
                what, got, reference
            ),
        ));
    }
    None
}

pub fn c03(tier: Tier) -> Result<Report, String> {
    let thorough = tier == Tier::Thorough;
    let mut scenarios = scenarios::confluent_all(thorough);
    // the confluent binary-churn and failure scenarios are confluent programs too
    scenarios.extend(scenarios::bin_all().into_iter().filter(|s| s.confluent));
    scenarios.extend(scenarios::fail_all().into_iter().filter(|s| s.confluent));
    let plan = Plan {
        property: "C03",
        scenarios,
        configs: Box::new(move |sc| {
            if thorough {
                grid(sc, &[1, 2, 3], &[1, 2, 3, 5, 1000], true)
            } else {
                grid(sc, &[1, 2, 3], &[1, 3, 1000], true)
            }
        }),
        bound: if thorough { 3 } else { 2 },
        bound_for: Some(Box::new(move |_sc, cfg| if thorough { 3 } else if cfg.quantum >= 3 { 2 } else { 1 })),
        explicit: Box::new(move |_sc, cfg| {
            if thorough {
                Some(250_000)
            } else if cfg.quantum >= 1000 && cfg.workers <= 2 {
                Some(3_000)
            } else {
                None
            }
        }),
        monitor: &std_monitor,
        oracle: Some(&c03_oracle),
        wall_budget_s: if thorough { 840.0 } else { 45.0 },
        assumptions: ASSUME_A.iter().map(|s| s.to_string()).collect(),
        explanation: "Stateless exploration of the real Environment/Worker/Executor under a controlled scheduler: every schedule with at most `deviation_bound_completed` deviations from the round-robin default, for every scenario x worker count x time-slice length; each run IS an implementation trace (no hand-written model), so traces_validated_against_impl = schedules. Oracle: canonical outcome (entry result, per-process results by spawn path, errors) equals the reference run; no panic/Err; no hang; poke test at quiescence.".to_string(),
    };
    driver::run_plan(plan)
}

fn conserve_monitor(_: &Scenario, _: &Config) -> Box<dyn Monitor> {
    Box::new(StdMonitor {
        conserve: true,
        ..Default::default()
    })
}

/// Parse a rendered list of `[a, b]` integer pairs: "[[0, 0], [1, 0]]".
fn parse_pairs(s: &str) -> Option<Vec<(i64, i64)>> {
    let nums: Vec<i64> = s
        .split(|c: char| !(c.is_ascii_digit() || c == '-'))
        .filter(|t| !t.is_empty())
        .map(|t| t.parse().ok())
        .collect::<Option<Vec<_>>>()?;
    if nums.len() % 2 != 0 {
        return None;
    }
    Some(nums.chunks(2).map(|c| (c[0], c[1])).collect())
}

fn c04_oracle(sc: &Scenario, reference: &Outcome, got: &Outcome) -> Option<(String, String)> {
    match sc.family {
        "fanin" => {
            let (Some(g), Some(r)) = (
                got.entry.as_deref().and_then(parse_pairs),
                reference.entry.as_deref().and_then(parse_pairs),
            ) else {
                return Some((
                    "O-log".to_string(),
                    format!("receiver log unreadable: got {:?}", got.entry),
                ));
            };
            let mut gs = g.clone();
            gs.sort();
            let mut rs = r.clone();
            rs.sort();
            if gs != rs {
                return Some((
                    "O-exactly-once".to_string(),
                    format!("received multiset {:?} differs from sent multiset {:?}", g, rs),
                ));
            }
            let mut last: std::collections::BTreeMap<i64, i64> = Default::default();
            for (sender, seq) in &g {
                if let Some(prev) = last.get(sender) {
                    if seq <= prev {
                        return Some((
                            "O-fifo".to_string(),
                            format!("messages of sender {} arrived out of send order: {:?}", sender, g),
                        ));
                    }
                }
                last.insert(*sender, *seq);
            }
            None
        }
        "fanout_race" => {
            // w must be one of the children's results; the rest is deterministic
            let (Some(g), Some(r)) = (got.entry.as_deref(), reference.entry.as_deref()) else {
                return Some(("O-log".to_string(), format!("no entry result: {:?}", got)));
            };
            let gi: Vec<&str> = g.trim_matches(|c| c == '[' || c == ']').split(", ").collect();
            let ri: Vec<&str> = r.trim_matches(|c| c == '[' || c == ']').split(", ").collect();
            if gi.len() != ri.len() || gi[1..] != ri[1..] || !ri[1..].contains(&gi[0]) {
                return Some((
                    "O-await".to_string(),
                    format!("awaited results wrong: got {}, reference {}", g, r),
                ));
            }
            None
        }
        _ => {
            if got.entry != reference.entry {
                return Some((
                    "O-log".to_string(),
                    format!(
                        "the program's own log of received messages/awaited results {:?} differs from the reference {:?}",
                        got.entry, reference.entry
                    ),
                ));
            }
            None
        }
    }
}

pub fn c04(tier: Tier) -> Result<Report, String> {
    let thorough = tier == Tier::Thorough;
    let plan = Plan {
        property: "C04",
        scenarios: scenarios::messaging_all(thorough),
        configs: Box::new(move |sc| {
            if thorough {
                grid(sc, &[1, 2, 3], &[1, 2, 5, 1000], true)
            } else {
                grid(sc, &[1, 2, 3], &[1, 1000], true)
            }
        }),
        bound: if thorough { 3 } else { 2 },
        bound_for: Some(Box::new(move |_sc, cfg| if thorough { 3 } else if cfg.quantum >= 3 { 2 } else { 1 })),
        explicit: Box::new(move |_sc, cfg| {
            if thorough {
                Some(250_000)
            } else if cfg.quantum >= 1000 && cfg.workers <= 2 {
                Some(3_000)
            } else {
                None
            }
        }),
        monitor: &conserve_monitor,
        oracle: Some(&c04_oracle),
        wall_budget_s: if thorough { 840.0 } else { 45.0 },
        assumptions: ASSUME_A.iter().map(|s| s.to_string()).collect(),
        explanation: "Same exploration as C03 over all message-passing families (confluent or not). Oracles: no message exists twice across event queues, command queues and mailboxes (I-conserve); the receiver-side log built by the program equals the multiset sent and respects per-sender order (O-exactly-once, O-fifo, O-log); at quiescence no process waits for a spawn notification, the entry result was delivered, and the poke test (re-queue every parked select through Executor::mark_active, continue the default schedule) lets no select complete (I-lostwake).".to_string(),
    };
    driver::run_plan(plan)
}

fn heap_monitor(_: &Scenario, _: &Config) -> Box<dyn Monitor> {
    Box::new(StdMonitor {
        heap: true,
        ..Default::default()
    })
}

fn c06_oracle(sc: &Scenario, reference: &Outcome, got: &Outcome) -> Option<(String, String)> {
    if let Some(expect) = &sc.expect {
        let ok = got
            .entry
            .as_deref()
            .map(|g| expect.split(" || ").any(|e| e == g))
            .unwrap_or(false);
        if !ok {
            return Some((
                "O-bytes".to_string(),
                format!(
                    "binaries in the result do not read back the bytes they were created with: got {:?}, host-computed {:?}",
                    got.entry, expect
                ),
            ));
        }
    }
    if sc.confluent && got != reference {
        return Some((
            "O-bytes".to_string(),
            format!("outcome differs from the reference run: got {:?}, reference {:?}", got, reference),
        ));
    }
    None
}

pub fn c06(tier: Tier) -> Result<Report, String> {
    let thorough = tier == Tier::Thorough;
    let plan = Plan {
        property: "C06",
        scenarios: scenarios::bin_all(),
        configs: Box::new(move |sc| {
            if thorough {
                grid(sc, &[1, 2, 3], &[1, 2, 3, 1000], true)
            } else {
                grid(sc, &[1, 2], &[1, 2, 1000], false)
            }
        }),
        bound: if thorough { 3 } else { 2 },
        bound_for: None,
        explicit: Box::new(move |_sc, cfg| {
            if thorough {
                Some(250_000)
            } else if cfg.quantum >= 1000 && cfg.workers <= 2 {
                Some(3_000)
            } else {
                None
            }
        }),
        monitor: &heap_monitor,
        oracle: Some(&c06_oracle),
        wall_budget_s: if thorough { 840.0 } else { 45.0 },
        assumptions: ASSUME_A.iter().map(|s| s.to_string()).collect(),
        explanation: "Binary-churn scenarios (heap binaries created, shared in tuples/closures, sliced, sent, skipped/taken by filters, captured and passed at spawn, dropped in tail loops, awaited twice, left in mailboxes) under every schedule within the deviation bound, down to one instruction per time slice (quantum 1 puts a reclamation point between every two instructions). After EVERY worker action, on that worker's executor: check_refcounts() (count > 0 <=> reachable, using the repository's own root set), no reachable slot is freed, free list == freed flags without duplicates, freed slots have count 0; at quiescence after one flushing slice: no unreachable slot lingers outside the free list; result bytes equal host-computed bytes. Debug assertions of the repository (use-after-free, release underflow, refcount check at process completion) are live in the verif profile and count as I-noerr.".to_string(),
    };
    let mut rep = driver::run_plan(plan)?;
    // REPL part: line histories (local compaction, orphan release, alias shadowing)
    let budget = crate::infra::Budget::new(if thorough { 600.0 } else { 25.0 });
    let (cov, violations) = super::replheap::run(
        if thorough { 5 } else { 4 },
        if thorough { &[1, 2, 3] } else { &[1, 2] },
        &budget,
    )?;
    rep.coverage["repl_histories"] = cov;
    rep.violations.extend(violations);
    Ok(rep)
}

struct SelectMon {
    std: StdMonitor,
    sel: super::selectmon::SelectMonitor,
    sc: Scenario,
}

impl Monitor for SelectMon {
    fn after(&mut self, sys: &mut super::system::System, act: &super::system::Act) -> Vec<(String, String)> {
        let mut out = self.std.after(sys, act);
        if out.is_empty() {
            out.extend(self.sel.check(sys));
        }
        out
    }
    fn terminal(&mut self, sys: &mut super::system::System, horizon_hit: bool) -> Vec<(String, String)> {
        let mut out = self.sel.check(sys);
        if out.is_empty() && !horizon_hit && self.sc.family == "select_mix" {
            if let Some(Ok((v, heap))) = sys.entry_result.clone() {
                let refs = std::cell::RefCell::new(std::collections::BTreeMap::new());
                let entry = super::render_value(sys, &v, &heap, &refs);
                let mb = mailbox_of(sys, "r.2");
                out.extend(drain_accounting(&self.sc, &entry, &mb));
            }
        }
        if out.is_empty() {
            out.extend(self.std.terminal(sys, horizon_hit));
        }
        out
    }
}

fn select_monitor(sc: &Scenario, _: &Config) -> Box<dyn Monitor> {
    Box::new(SelectMon {
        std: StdMonitor {
            conserve: true,
            expect_entry_result: true,
            ..Default::default()
        },
        sel: Default::default(),
        sc: sc.clone(),
    })
}

/// Program-level part of C05: what the select yielded, what the drain loop found afterwards and
/// what is still in the receiver's mailbox at quiescence account for the three messages sent:
/// nothing lost, nothing duplicated, nothing taken that was not selected, leftovers in send order.
fn drain_accounting(sc: &Scenario, entry: &str, final_mailbox: &[String]) -> Option<(String, String)> {
    let inner = entry.strip_prefix('[')?.strip_suffix(']')?;
    let mut parts: Vec<String> = vec![];
    let mut depth = 0;
    let mut cur = String::new();
    for ch in inner.chars() {
        match ch {
            '[' => {
                depth += 1;
                cur.push(ch)
            }
            ']' => {
                depth -= 1;
                cur.push(ch)
            }
            ',' if depth == 0 => {
                parts.push(cur.trim().to_string());
                cur.clear();
            }
            _ => cur.push(ch),
        }
    }
    parts.push(cur.trim().to_string());
    if parts.len() != 4 {
        return Some(("O-drain".to_string(), format!("unreadable receiver report {}", entry)));
    }
    let two_senders = sc.id.contains(",2s");
    let msgs = ["1", "A[4]", "2"];
    let selected = &parts[0];
    let left: Vec<&String> = parts[1..].iter().filter(|p| *p != "[]").collect();
    let mut seen: Vec<&str> = left.iter().map(|s| s.as_str()).collect();
    if msgs.contains(&selected.as_str()) {
        seen.push(selected.as_str());
    }
    seen.extend(final_mailbox.iter().map(|s| s.as_str()));
    let mut sorted_seen = seen.clone();
    sorted_seen.sort();
    let mut want: Vec<&str> = msgs.to_vec();
    want.sort();
    if sorted_seen != want {
        return Some((
            "O-drain".to_string(),
            format!(
                "messages sent were 1, A[4], 2 but selected {} + drained {:?} + still in mailbox {:?} do not account for exactly those: a message was lost, duplicated, or taken although not selected",
                selected, left, final_mailbox
            ),
        ));
    }
    if !two_senders {
        // drained messages followed by the mailbox rest must be in send order
        let mut seq: Vec<&str> = left.iter().map(|s| s.as_str()).collect();
        seq.extend(final_mailbox.iter().map(|s| s.as_str()));
        let order: Vec<usize> = seq
            .iter()
            .map(|l| msgs.iter().position(|m| m == l).unwrap())
            .collect();
        if order.windows(2).any(|w| w[0] > w[1]) {
            return Some((
                "O-drain".to_string(),
                format!("messages not taken did not keep their original order: report {}, mailbox {:?}", entry, final_mailbox),
            ));
        }
    }
    None
}

fn c05_oracle(_sc: &Scenario, _reference: &Outcome, _got: &Outcome) -> Option<(String, String)> {
    None
}

fn mailbox_of(sys: &mut super::system::System, path: &str) -> Vec<String> {
    let mut out = vec![];
    for i in 0..sys.workers.len() {
        if sys.workers[i].dead || sys.workers[i].mid_step.is_some() {
            continue;
        }
        let boxes: Vec<(usize, Vec<(quiver_core::value::Value, Vec<Vec<u8>>)>)> = sys.with_worker(i, |w| {
            let ex = w.verif_executor();
            ex.verif_sched_view()
                .pids
                .iter()
                .map(|pid| {
                    let p = ex.get_process(*pid).unwrap();
                    (
                        *pid,
                        p.mailbox
                            .iter()
                            .map(|m| ex.extract_heap_data(m).unwrap_or((m.clone(), vec![])))
                            .collect(),
                    )
                })
                .collect()
        });
        for (pid, msgs) in boxes {
            if sys.path_of(pid) == path {
                let refs = std::cell::RefCell::new(std::collections::BTreeMap::new());
                for (m, heap) in msgs {
                    out.push(super::render_value(sys, &m, &heap, &refs));
                }
            }
        }
    }
    out
}

pub fn c05(tier: Tier) -> Result<Report, String> {
    let thorough = tier == Tier::Thorough;
    let mut scenarios = scenarios::select_mix_all(thorough);
    for n in 2..=3 {
        scenarios.extend(
            scenarios::messaging_all(false)
                .into_iter()
                .filter(|s| (s.family == "fanout_race" && s.id.starts_with(&format!("fanout_race({}", n))) ),
        );
    }
    scenarios.extend(scenarios::messaging_all(false).into_iter().filter(|s| s.family == "late_await" || s.family == "typed_mail"));
    let plan = Plan {
        property: "C05",
        scenarios,
        configs: Box::new(move |sc| {
            if thorough {
                grid(sc, &[1, 2, 3], &[1, 2, 1000], false)
            } else {
                grid(sc, &[2], &[1, 1000], false)
            }
        }),
        bound: 2,
        bound_for: Some(Box::new(move |_sc, cfg| if cfg.quantum >= 1000 { 2 } else if thorough { 2 } else { 1 })),
        explicit: Box::new(move |_sc, cfg| {
            if thorough {
                Some(250_000)
            } else if cfg.quantum >= 1000 && cfg.workers <= 2 {
                Some(3_000)
            } else {
                None
            }
        }),
        monitor: &select_monitor,
        oracle: Some(&c05_oracle),
        wall_budget_s: if thorough { 840.0 } else { 45.0 },
        assumptions: {
            let mut a: Vec<String> = ASSUME_A.iter().map(|s| s.to_string()).collect();
            a.push("readiness of an awaited source is judged on the awaiter's local `awaiting` map (information that has arrived); loss of information in transit is I-conserve-completion's job; a timeout's readiness uses the implementation's own start_time, its lower bound the select's first entry".to_string());
            a.push("filters come from a closed family whose verdict the host computes from the captured value (accept the integer equal to the capture)".to_string());
            a
        },
        explanation: "select_mix: a receiver runs one select over every source list of length 1-2 (thorough: + await/receive/timeout triples in every order) drawn from {await finished child, await never-finishing child, type-only 'int, type-only A['int], filter =2 => Ok, filter =1 => 99, timeout 0, timeout 5}, fed 1, A[4], 2 by one or two senders, then drains its mailbox. Every schedule within the deviation bound, including virtual-clock advances to each pending expiry at any point. Monitor hook H1d snapshots every handle_select entry/exit; a host reference function decides on the entry snapshot which source must win (first in written order that is ready), which message must be taken (earliest of the source's type accepted by its filter), the value (the message, never the verdict; nil for a timeout; the awaited result), that the mailbox afterwards is the mailbox before minus that one message in order, that a parked select had nothing ready, and that a timeout fires no earlier than its duration after the select's first entry.".to_string(),
    };
    driver::run_plan(plan)
}

/// Evaluate a `fail_*` expectation string against an outcome.
fn check_expectations(expect: &str, got: &Outcome) -> Option<String> {
    let get = |path: &str| -> Option<String> { got.procs.get(path.trim()).cloned() };
    for clause in expect.split("; ") {
        let alts: Vec<&str> = clause.split(" || ").collect();
        let mut ok = false;
        let mut why = vec![];
        for alt in alts {
            let alt = alt.trim();
            if let Some((a, b)) = alt.split_once("==") {
                let (va, vb) = (get(a), get(b));
                if va.is_some() && va == vb {
                    ok = true;
                } else {
                    why.push(format!("{} is {:?} but {} is {:?}", a.trim(), va, b.trim(), vb));
                }
            } else if let Some((a, want)) = alt.split_once('=') {
                let va = get(a);
                let want = want.trim();
                let matches = match &va {
                    Some(v) if want == "ERR" => v.starts_with("ERR "),
                    Some(v) => v == want,
                    None => false,
                };
                if matches {
                    ok = true;
                } else {
                    why.push(format!("{} is {:?}, expected {}", a.trim(), va, want));
                }
            }
        }
        if !ok {
            return Some(why.join(" and "));
        }
    }
    None
}

fn c15_oracle(sc: &Scenario, reference: &Outcome, got: &Outcome) -> Option<(String, String)> {
    if let Some(expect) = &sc.expect {
        if let Some(why) = check_expectations(expect, got) {
            return Some((
                "I-contain".to_string(),
                format!("{} (per-process results {:?})", why, got.procs),
            ));
        }
    }
    if sc.confluent && got.procs != reference.procs {
        return Some((
            "I-contain".to_string(),
            format!("per-process results {:?} differ from the reference run {:?}", got.procs, reference.procs),
        ));
    }
    None
}

fn fail_monitor(sc: &Scenario, _: &Config) -> Box<dyn Monitor> {
    Box::new(StdMonitor {
        conserve: true,
        expect_entry_result: true,
        ..Default::default()
    })
}

pub fn c15(tier: Tier) -> Result<Report, String> {
    let thorough = tier == Tier::Thorough;
    let plan = Plan {
        property: "C15",
        scenarios: scenarios::fail_all(),
        configs: Box::new(move |sc| {
            if thorough {
                grid(sc, &[1, 2, 3], &[1, 2, 5, 1000], true)
            } else {
                grid(sc, &[1, 2, 3], &[1, 1000], true)
            }
        }),
        bound: if thorough { 3 } else { 2 },
        bound_for: Some(Box::new(move |_sc, cfg| if thorough { 3 } else { 2 })),
        explicit: Box::new(move |_sc, cfg| {
            if thorough {
                Some(250_000)
            } else if cfg.quantum >= 1000 && cfg.workers <= 2 {
                Some(3_000)
            } else {
                None
            }
        }),
        monitor: &fail_monitor,
        oracle: Some(&c15_oracle),
        wall_budget_s: if thorough { 840.0 } else { 45.0 },
        assumptions: ASSUME_A.iter().map(|s| s.to_string()).collect(),
        explanation: "A failing operation (division by zero, out-of-range slice, send/spawn/select inside a receive filter) placed in each process role (awaited child, unawaited child, awaited before/after the failure, two awaiters, chain of awaiters, raced against a live process, target of later sends), under every schedule within the deviation bound. Oracle at quiescence: every process that awaits a failed process has exactly that error, every process that does not has its normal result (explicit per-scenario expectations plus equality with the reference run for confluent scenarios); after every action: no panic, no Err from Worker::step/Environment::step; no hang; no lost completion.".to_string(),
    };
    driver::run_plan(plan)
}

struct ResMon {
    std: StdMonitor,
    res: super::resmon::ResourceMonitor,
}

impl Monitor for ResMon {
    fn after(&mut self, sys: &mut super::system::System, act: &super::system::Act) -> Vec<(String, String)> {
        let mut out = self.std.after(sys, act);
        if out.is_empty() {
            out.extend(self.res.after(sys, act));
        }
        out
    }
    fn terminal(&mut self, sys: &mut super::system::System, horizon_hit: bool) -> Vec<(String, String)> {
        let mut out = self.std.terminal(sys, horizon_hit);
        if out.is_empty() && !horizon_hit {
            out.extend(self.res.terminal(sys));
        }
        out
    }
}

fn res_monitor(_sc: &Scenario, _: &Config) -> Box<dyn Monitor> {
    Box::new(ResMon {
        std: StdMonitor {
            expect_entry_result: true,
            ..Default::default()
        },
        res: Default::default(),
    })
}

pub fn c14(tier: Tier) -> Result<Report, String> {
    let thorough = tier == Tier::Thorough;
    let plan = Plan {
        property: "C14",
        scenarios: scenarios::res_all(),
        configs: Box::new(move |sc| {
            let mut v = vec![];
            let ws: &[usize] = if thorough { &[1, 2, 3] } else { &[1, 2] };
            let qs: &[usize] = if thorough { &[1, 2, 1000] } else { &[1, 1000] };
            for &w in ws {
                for &q in qs {
                    for defer in [false, true] {
                        v.push(Config {
                            workers: w,
                            quantum: q,
                            request_early: true,
                            io: true,
                            defer_effects: defer,
                        });
                    }
                }
            }
            v
        }),
        bound: if thorough { 3 } else { 2 },
        bound_for: Some(Box::new(move |_sc, cfg| if thorough { if cfg.quantum >= 1000 { 4 } else { 3 } } else { 2 })),
        explicit: Box::new(move |_sc, cfg| {
            if thorough {
                Some(250_000)
            } else if cfg.quantum >= 1000 && cfg.workers <= 2 {
                Some(3_000)
            } else {
                None
            }
        }),
        monitor: &res_monitor,
        oracle: None,
        wall_budget_s: if thorough { 840.0 } else { 45.0 },
        assumptions: {
            let mut a: Vec<String> = ASSUME_A.iter().map(|s| s.to_string()).collect();
            a.push("io_uring and the native backend's registry are replaced by an instrumented in-memory EffectBackend (files as byte vectors) that logs every execute(pid, effect) and close_resource(id); the ownership logic of environment.rs and NativeEffect::resource_id are the real code".to_string());
            a.push("a close of an already closed id is a no-op by the backend contract and is not counted as a second close".to_string());
            a
        },
        explanation: "Resource scenarios (open/use/send bare or nested/pass as spawn argument/capture/leave in mailbox/explicit close/two resources/two awaiters/owner awaited or not/entry process as owner/send to a terminated process) over the real file builtins and the real ownership logic, under every schedule within the deviation bound, with effect completion immediate or deferred (scheduler-controlled). After every environment step the backend calls are compared with the calls a host-side ownership model allows (owner = creator until the handle is sent or passed at spawn, then the recipient; a non-owner's operation must not reach the backend); runtime closes happen only for terminated owners and at most once; at quiescence every resource whose owner has terminated is closed.".to_string(),
    };
    driver::run_plan(plan)
}

pub fn monitor_for(property: &str) -> (&'static driver::MonitorFactory, Option<&'static driver::OutcomeOracle>) {
    match property {
        "C03" => (&std_monitor, Some(&c03_oracle)),
        "C04" => (&conserve_monitor, Some(&c04_oracle)),
        "C06" => (&heap_monitor, Some(&c06_oracle)),
        "C05" => (&select_monitor, Some(&c05_oracle)),
        "C15" => (&fail_monitor, Some(&c15_oracle)),
        "C14" => (&res_monitor, None),
        _ => (&std_monitor, None),
    }
}
