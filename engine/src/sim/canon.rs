//! Canonical text encodings of commands, events and views (hash maps sorted), used for state
//! fingerprints and for narrating replays.

use super::system::{Cmd, Evt};
use quiver_core::process::ProcessId;
use quiver_core::value::Value;
use quiver_environment::environment_verif::EnvironmentView;
use quiver_environment::{Command, Event};
use std::collections::HashMap;

type RuntimeResult = Result<(Value, Vec<Vec<u8>>), quiver_core::error::Error>;

fn results(map: &HashMap<ProcessId, Option<RuntimeResult>>) -> String {
    let mut v: Vec<_> = map.iter().collect();
    v.sort_by_key(|(k, _)| **k);
    let mut s = String::from("{");
    for (k, r) in v {
        s.push_str(&format!("{}:{:?},", k, r));
    }
    s.push('}');
    s
}

pub fn cmd(c: &Cmd) -> String {
    match c {
        Command::UpdateProgram(u) => format!(
            "UpdateProgram(c{},f{},t{},y{},b{})",
            u.constants.len(),
            u.functions.len(),
            u.tuples.len(),
            u.types.len(),
            u.builtins.len()
        ),
        Command::UpdateAwaitResults { awaiter, results: r } => {
            format!("UpdateAwaitResults({},{})", awaiter, results(r))
        }
        other => format!("{:?}", other),
    }
}

pub fn evt(e: &Evt) -> String {
    match e {
        Event::ProcessResults { awaiter, results: r } => {
            format!("ProcessResults({},{})", awaiter, results(r))
        }
        Event::ResultResponse {
            request_id, result, ..
        } => format!("ResultResponse({},{:?})", request_id, result),
        other => format!("{:?}", other),
    }
}

pub fn env_view(v: &EnvironmentView) -> String {
    format!(
        "ENV router{:?} awaits{:?} own{:?} term{:?} np{} nr{} req{:?}",
        v.process_router,
        v.pending_awaits
            .iter()
            .map(|p| format!("{}:{:?}:{:?}", p.awaiter, p.expected_workers, p.responses))
            .collect::<Vec<_>>(),
        v.resource_ownership,
        v.terminated,
        v.next_process_id,
        v.next_request_id,
        v.pending_requests
    )
}
