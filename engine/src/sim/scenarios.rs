//! Scenario families (the driver alphabet of Engine A). Every instance within the parameter grid
//! is used; nothing is sampled.

#[derive(Clone, Debug)]
pub struct Scenario {
    pub id: String,
    pub family: &'static str,
    pub source: String,
    /// All mailboxes have a single sender and no timeout races another source.
    pub confluent: bool,
    pub io: bool,
    /// Host-computed expected entry result (canonical rendering), where the template fixes it.
    pub expect: Option<String>,
}

pub fn sc(id: &str, family: &'static str, confluent: bool, source: &str) -> Scenario {
    Scenario {
        id: id.to_string(),
        family,
        source: source.to_string(),
        confluent,
        io: false,
        expect: None,
    }
}

fn ty_int() -> &'static str {
    "'int"
}

/// `pipe(n,k)`: n forwarding stages, k messages, the collector returns what it received.
pub fn pipe(n: usize, k: usize) -> Scenario {
    let mut s = String::new();
    // collector
    let recv: Vec<String> = (0..k).map(|i| format!("!'int =m{}", i)).collect();
    let list: Vec<String> = (0..k).map(|i| format!("m{}", i)).collect();
    s.push_str(&format!("col = @{{ {}, [{}] }},\n", recv.join(", "), list.join(", ")));
    let mut downstream = "col".to_string();
    for stage in 0..n {
        let mut body = vec![];
        for i in 0..k {
            body.push(format!(
                "!'int =x{i}, [x{i}, {add}] __integer_add__ {d}",
                i = i,
                add = 10 * (stage + 1),
                d = downstream
            ));
        }
        s.push_str(&format!("st{} = @{{ {}, Ok }},\n", stage, body.join(", ")));
        downstream = format!("st{}", stage);
    }
    for i in 0..k {
        s.push_str(&format!("{} {},\n", i + 1, downstream));
    }
    s.push_str("!col");
    Scenario {
        id: format!("pipe({},{})", n, k),
        family: "pipe",
        source: s,
        confluent: true,
        io: false,
        expect: None,
    }
}

/// `fanout(n, order)`: parent spawns n children with arguments and awaits them one by one in the
/// given order; the result lists the children's results in await order.
pub fn fanout(n: usize, order: &[usize]) -> Scenario {
    let mut s = String::from("f = #'int { [~, 100] __integer_add__ },\n");
    for i in 0..n {
        s.push_str(&format!("c{} = {} @f,\n", i, i + 1));
    }
    for &i in order {
        s.push_str(&format!("r{i} = !c{i},\n", i = i));
    }
    let list: Vec<String> = order.iter().map(|i| format!("r{}", i)).collect();
    s.push_str(&format!("[{}]", list.join(", ")));
    Scenario {
        id: format!(
            "fanout({},{})",
            n,
            order.iter().map(|x| x.to_string()).collect::<String>()
        ),
        family: "fanout",
        source: s,
        confluent: true,
        io: false,
        expect: None,
    }
}

/// `fanout_race(n, order)`: the same children awaited by one `! [c…]` in the given written order,
/// after which the remaining children are awaited one by one. First-finished-wins is
/// schedule-dependent by design (not confluent).
pub fn fanout_race(n: usize, order: &[usize]) -> Scenario {
    let mut s = String::from("f = #'int { [~, 100] __integer_add__ },\n");
    for i in 0..n {
        s.push_str(&format!("c{} = {} @f,\n", i, i + 1));
    }
    let list: Vec<String> = order.iter().map(|i| format!("c{}", i)).collect();
    s.push_str(&format!("w = ! [{}],\n", list.join(", ")));
    for i in 0..n {
        s.push_str(&format!("r{i} = !c{i},\n", i = i));
    }
    let all: Vec<String> = (0..n).map(|i| format!("r{}", i)).collect();
    s.push_str(&format!("[w, {}]", all.join(", ")));
    Scenario {
        id: format!(
            "fanout_race({},{})",
            n,
            order.iter().map(|x| x.to_string()).collect::<String>()
        ),
        family: "fanout_race",
        source: s,
        confluent: false,
        io: false,
        expect: None,
    }
}

/// `reqrep(k)`: a client sends `[self, x]` to a server which replies `x + 1000`; k rounds.
pub fn reqrep(k: usize) -> Scenario {
    let mut s = String::new();
    s.push_str("'req = [(@'int), 'int]\n");
    let mut body = vec![];
    for i in 0..k {
        body.push(format!(
            "!'req =[c{i}, x{i}], [x{i}, 1000] __integer_add__ c{i}",
            i = i
        ));
    }
    s.push_str(&format!("srv = @{{ {}, Ok }},\n", body.join(", ")));
    s.push_str("me = &.,\n");
    let mut outs = vec![];
    for i in 0..k {
        s.push_str(&format!("[&me, {}] srv,\nv{} = !'int,\n", i + 1, i));
        outs.push(format!("v{}", i));
    }
    s.push_str(&format!("[{}]", outs.join(", ")));
    Scenario {
        id: format!("reqrep({})", k),
        family: "reqrep",
        source: s,
        confluent: true,
        io: false,
        expect: None,
    }
}

/// `await_chain(n)`: process i spawns and awaits process i+1; results add up.
pub fn await_chain(n: usize) -> Scenario {
    // innermost first
    let mut expr = String::from("@{ 1 }");
    for i in 0..n {
        expr = format!("@{{ p = {}, !p =v, [v, {}] __integer_add__ }}", expr, 10 * (i + 1));
    }
    let s = format!("p = {},\n!p", expr);
    Scenario {
        id: format!("await_chain({})", n),
        family: "await_chain",
        source: s,
        confluent: true,
        io: false,
        expect: None,
    }
}

/// Late awaits: await a process that finished long ago; await the same process twice; two
/// awaiters of one target.
pub fn late_await(variant: usize) -> Scenario {
    let src = match variant {
        // await twice
        0 => "c = @{ 7 },\na = !c,\nb = !c,\n[a, b]".to_string(),
        // target finished long before the await: parent first waits for an unrelated round trip
        1 => "c = @{ 7 },\nd = @{ !'int },\n5 d,\nx = !d,\ny = !c,\n[x, y]".to_string(),
        // two awaiters of one target: the parent and a sibling that is given the pid
        2 => "'t = (@-> 'int)\nc = @{ 7 },\nw = &c @'t { =p => !p =v, [v, 1] __integer_add__ },\na = !c,\nb = !w,\n[a, b]".to_string(),
        // awaited process waits for a message first (await registered before completion)
        3 => "c = @{ !'int =m, [m, 1] __integer_add__ },\nw = @{ !c },\n41 c,\na = !w,\nb = !c,\n[a, b]".to_string(),
        _ => "c = @{ 0x0102 },\na = !c,\nb = !c,\n[a, b]".to_string(),
    };
    Scenario {
        id: format!("late_await({})", variant),
        family: "late_await",
        source: src,
        confluent: true,
        io: false,
        expect: None,
    }
}

/// Stale await answers: a select over `[slow await, receive]` is completed by a message while
/// the "not finished yet" answer to its await handshake is still in flight; the process then
/// goes on to park somewhere else (a spawn, another select, an await of a fresh child).
pub fn stale_await(variant: usize) -> Scenario {
    let src = match variant {
        0 => "s = @{ !'bin },\nr = @{ v = ! [s, #'int], q = @{ 3 }, w = !q, [v, w] },\n1 r,\n!r",
        1 => "s = @{ !'bin },\nr = @{ v = ! [s, #'int], q = @{ 3 }, p = @{ 4 }, [v, !q, !p] },\n1 r,\n!r",
        2 => "s = @{ !'bin },\nr = @{ v = ! [s, #'int], u = !#'int, [v, u] },\n1 r,\n2 r,\n!r",
        _ => "s = @{ !'bin },\nt = @{ !'bin },\nr = @{ v = ! [s, #'int], u = ! [t, #'int], q = @{ 3 }, [v, u, !q] },\n1 r,\n2 r,\n!r",
    };
    Scenario {
        id: format!("stale_await({})", variant),
        family: "stale_await",
        source: src.to_string(),
        confluent: true,
        io: false,
        expect: None,
    }
}

/// `spawn_storm(n)`: a process receives messages while its own spawns are in flight (the
/// CHANGELOG 0.2.1 bug shape): the parent sends to `s` while `s` spawns n children.
pub fn spawn_storm(n: usize) -> Scenario {
    let mut body = vec![];
    for i in 0..n {
        body.push(format!("k{} = @{{ {} }}", i, i + 1));
    }
    for i in 0..n {
        body.push(format!("!'int =m{}", i));
    }
    for i in 0..n {
        body.push(format!("v{i} = !k{i}", i = i));
    }
    let ms: Vec<String> = (0..n).map(|i| format!("m{}", i)).collect();
    let vs: Vec<String> = (0..n).map(|i| format!("v{}", i)).collect();
    let mut s = format!(
        "s = @{{ {}, [[{}], [{}]] }},\n",
        body.join(", "),
        ms.join(", "),
        vs.join(", ")
    );
    for i in 0..n {
        s.push_str(&format!("{} s,\n", 50 + i));
    }
    s.push_str("!s");
    Scenario {
        id: format!("spawn_storm({})", n),
        family: "spawn_storm",
        source: s,
        confluent: true,
        io: false,
        expect: None,
    }
}

/// `fanin(n,k)`: n senders each send k tagged messages `[sender, seq]` to one receiver that logs
/// them in arrival order. Not confluent (the interleaving of senders is free); per-sender order
/// and exactly-once are checked on the log.
pub fn fanin(n: usize, k: usize) -> Scenario {
    let total = n * k;
    let recv: Vec<String> = (0..total).map(|i| format!("!#['int, 'int] =m{}", i)).collect();
    let list: Vec<String> = (0..total).map(|i| format!("m{}", i)).collect();
    let mut s = format!("col = @{{ {}, [{}] }},\n", recv.join(", "), list.join(", "));
    for i in 0..n {
        let sends: Vec<String> = (0..k).map(|j| format!("[{}, {}] col", i, j)).collect();
        s.push_str(&format!("s{} = @{{ {}, Ok }},\n", i, sends.join(", ")));
    }
    s.push_str("!col");
    Scenario {
        id: format!("fanin({},{})", n, k),
        family: "fanin",
        source: s,
        confluent: false,
        io: false,
        expect: None,
    }
}

/// `typed_mail(v)`: a single sender; the receiver waits for a message type/value that arrives
/// *after* other messages, so it parks with a non-empty mailbox and must still be woken.
pub fn typed_mail(variant: usize) -> Scenario {
    let src = match variant {
        0 => "r = @{ !'bin =b, !'int =i, [b, i] },\n5 r,\n0x01 r,\n!r",
        1 => "r = @{ !'bin =b, !'int =i, !'int =j, [b, i, j] },\n5 r,\n6 r,\n0x01 r,\n!r",
        2 => "r = @{ ! [#'int { =2 => Ok }] =a, !'int =b, !'int =c, [a, b, c] },\n1 r,\n3 r,\n2 r,\n!r",
        3 => "r = @{ !'bin =b, ! [#'int { =7 => Ok }] =i, !'int =j, [b, i, j] },\n5 r,\n7 r,\n0x01 r,\n!r",
        _ => "c = @{ !'int },\nr = @{ !'bin =b, !c =v, !'int =i, [b, v, i] },\n5 r,\n9 c,\n0x01 r,\n!r",
    };
    Scenario {
        id: format!("typed_mail({})", variant),
        family: "typed_mail",
        source: src.to_string(),
        confluent: true,
        io: false,
        expect: None,
    }
}

fn permutations(n: usize) -> Vec<Vec<usize>> {
    fn rec(cur: &mut Vec<usize>, used: &mut Vec<bool>, n: usize, out: &mut Vec<Vec<usize>>) {
        if cur.len() == n {
            out.push(cur.clone());
            return;
        }
        for i in 0..n {
            if !used[i] {
                used[i] = true;
                cur.push(i);
                rec(cur, used, n, out);
                cur.pop();
                used[i] = false;
            }
        }
    }
    let mut out = vec![];
    rec(&mut vec![], &mut vec![false; n], n, &mut out);
    out
}

/// The confluent families (C03) — every instance in the grid.
pub fn confluent_all(thorough: bool) -> Vec<Scenario> {
    let mut v = vec![];
    let kmax = if thorough { 3 } else { 2 };
    for n in 1..=2 {
        for k in 1..=kmax {
            v.push(pipe(n, k));
        }
    }
    if thorough {
        v.push(pipe(3, 2));
    }
    for n in 1..=3 {
        for p in permutations(n) {
            v.push(fanout(n, &p));
        }
    }
    for k in 1..=kmax {
        v.push(reqrep(k));
    }
    for n in 1..=3 {
        v.push(await_chain(n));
    }
    for variant in 0..5 {
        v.push(late_await(variant));
    }
    for n in 1..=kmax {
        v.push(spawn_storm(n));
    }
    for variant in 0..5 {
        v.push(typed_mail(variant));
    }
    for variant in 0..4 {
        v.push(stale_await(variant));
    }
    v
}

pub fn messaging_all(thorough: bool) -> Vec<Scenario> {
    let mut v = confluent_all(thorough);
    for n in 2..=3 {
        for k in 1..=2 {
            if n * k <= if thorough { 6 } else { 4 } {
                v.push(fanin(n, k));
            }
        }
    }
    for n in 2..=3 {
        for p in permutations(n) {
            v.push(fanout_race(n, &p));
        }
    }
    v
}

pub const FAMILIES: &[&str] = &[
    "pipe", "fanout", "fanout_race", "reqrep", "await_chain", "late_await", "spawn_storm", "fanin", "typed_mail", "stale_await", "bin", "select_mix", "fail", "res",
    "refs",
];

pub fn static_family(name: &str) -> &'static str {
    FAMILIES.iter().copied().find(|f| *f == name).unwrap_or("replay")
}

/// Binary-churn scenarios (C06): heap binaries created, shared, sliced, sent, filtered, captured,
/// dropped in loops, awaited twice. `expect` is the host-computed entry result.
pub fn bin_all() -> Vec<Scenario> {
    let mk = |id: &str, confluent: bool, src: &str, expect: &str| Scenario {
        id: format!("bin_{}", id),
        family: "bin",
        source: src.to_string(),
        confluent,
        io: false,
        expect: Some(expect.to_string()),
    };
    vec![
        mk("send", true,
           "b = [0x0102, 0x0304] __binary_concat__,\nc = @{ !'bin =m, [m, m] __binary_concat__ },\nb c,\nr = !c,\n[b, r]",
           "[0x01020304, 0x0102030401020304]"),
        mk("capture", true,
           "b = [0x0102, 0x0304] __binary_concat__,\nc = @{ [b, 0x05] __binary_concat__ },\nr = !c,\n[b, r]",
           "[0x01020304, 0x0102030405]"),
        mk("two_captures", true,
           "a = [0x01, 0x02] __binary_concat__,\nb = [0x03, 0x04] __binary_concat__,\nc = @{ [a, b] },\nr = !c,\n[r, a, b]",
           "[[0x0102, 0x0304], 0x0102, 0x0304]"),
        mk("capture_and_arg", true,
           "a = [0x01, 0x02] __binary_concat__,\nb = [0x03, 0x04] __binary_concat__,\nf = #'bin { [a, ~] },\nc = b @f,\n!c",
           "[0x0102, 0x0304]"),
        mk("arg", true,
           "b = [0x0102, 0x0304] __binary_concat__,\nf = #'bin { [~, 0x06] __binary_concat__ },\nc = b @f,\nr = !c,\n[r, b]",
           "[0x0102030406, 0x01020304]"),
        // the same binary reaches the child twice (captured and as the argument); the child drops
        // one of the two references and keeps, returns or extends the other
        mk("capture_is_arg_keep_capture", true,
           "s = [0xaa, 0xbb] __binary_concat__,\nf = #'bin { =x => s },\nc = s @f,\nr = !c,\n[r, s]",
           "[0xaabb, 0xaabb]"),
        mk("capture_is_arg_keep_arg", true,
           "s = [0xaa, 0xbb] __binary_concat__,\nf = #'bin { =x => s __binary_length__, x },\nc = s @f,\nr = !c,\n[r, s]",
           "[0xaabb, 0xaabb]"),
        mk("capture_is_arg_late_use", true,
           "s = [0xaa, 0xbb] __binary_concat__,\nf = #'bin { =x => !'int, [s, [0x01, 0x02] __binary_concat__] __binary_concat__ },\nc = s @f,\n7 c,\n!c",
           "0xaabb0102"),
        // a target awaited a second time by the same process after a select on it timed out
        mk("reawait_after_timeout", true,
           "p = @{ !'int =x, [0xaa, 0xbb] __binary_concat__ },\na = ! [p, 1],\n0 p,\nr = !p,\n[a, r]",
           "[[], 0xaabb]"),
        mk("loop", true,
           "f = #['int, 'bin] { =[0, acc] => acc | =[n, acc] => [[n, 1] __integer_subtract__, [acc, 0x01] __binary_concat__] ^ },\np = [3, 0x] @f,\n!p",
           "0x010101"),
        mk("await_twice", true,
           "c = @{ [0x01, 0x02] __binary_concat__ },\na = !c,\nb = !c,\n[a, b]",
           "[0x0102, 0x0102]"),
        mk("await_twice_drop", true,
           "c = @{ [0x01, 0x02] __binary_concat__ },\na = !c,\nb = !c,\n[a, b] __binary_concat__ __binary_length__",
           "4"),
        mk("await_thrice_drop", true,
           "c = @{ [0x01, 0x02] __binary_concat__ =x, [x, x] },\n!c,\n!c,\n!c,\n7",
           "7"),
        mk("await_twice_tuple", true,
           "c = @{ [0x01, 0x02] __binary_concat__ =x, A[x, x] },\na = !c,\nb = !c,\n[a, b]",
           "[A[0x0102, 0x0102], A[0x0102, 0x0102]]"),
        mk("mailbox_left", true,
           "c = @{ !'bin =m, m },\n[0x01, 0x02] __binary_concat__ =x,\nx c,\n[x, 0x03] __binary_concat__ c,\nr = !c,\n[r, x]",
           "[0x0102, 0x0102]"),
        mk("tuple_share", true,
           "x = [0x0a, 0x0b] __binary_concat__,\nc = @{ !#['bin, 'bin] =[p, q], [q, p] __binary_concat__ },\n[x, x] c,\nr = !c,\n[r, x]",
           "[0x0a0b0a0b, 0x0a0b]"),
        mk("slice", true,
           "x = [0x0a0b0c, 0x0d0e] __binary_concat__,\nc = @{ !'bin =m, [m, 1, 3] __binary_slice__ },\nx c,\nr = !c,\n[r, x]",
           "[0x0b0c, 0x0a0b0c0d0e]"),
        mk("filter_skip", true,
           "r = @{ ! [#'bin { =0xaa => Ok }] =a, !'bin =b, !'bin =c, [a, b, c] },\n[0xb0, 0x0b] __binary_concat__ r,\n0xcc r,\n0xaa r,\n!r",
           "[0xaa, 0xb00b, 0xcc]"),
        mk("filter_two", false,
           "r = @{ ! [#'bin { =0xaa => Ok }, #'bin { =x => [x, x] __binary_concat__ }] =a, !'bin =b, [a, b] },\n0xbb r,\n0xaa r,\n!r",
           "[0xaa, 0xbb] || [0xbb, 0xaa]"),
        mk("filter_two_drop", false,
           "r = @{ ! [#'bin { =0xaa => Ok }, #'bin { =x => [x, x] __binary_concat__ }] =a, !'bin =b, [b, b] __binary_concat__ __binary_length__ },\n0xbb r,\n0xaa r,\n!r",
           "2"),
        mk("filter_three_drop", false,
           "r = @{ ! [#'bin { =0xaa => Ok }, #'bin { =x => [x, x] __binary_concat__ }] =a, !'bin =b, !'bin =c, [b, c] __binary_concat__ __binary_length__ },\n0xbb r,\n0xcc r,\n0xaa r,\n!r",
           "2"),
        // a bodied filter holds a heap binary while a source written before it completes the
        // select (type-only receive / awaited child / timeout); the binary is taken later and dropped
        // a filter rejects a heap binary and a source written after it completes the select in the
        // same pass (an int already in the mailbox / timeout 0); the binary is taken later
        mk("filter_reject_then_lower_source", false,
           "r = @{ ! [#'bin { =0xaa => Ok }, #'int] =a, !'bin =b, [b, b] __binary_concat__ __binary_length__ },\n[0xb0, 0x0b] __binary_concat__ r,\n5 r,\n!r",
           "4"),
        mk("filter_reject_then_timeout", false,
           "r = @{ !'int, ! [#'bin { =0xaa => Ok }, 0] =a, !'bin =b, [b, b] __binary_concat__ __binary_length__ },\n[0xb0, 0x0b] __binary_concat__ r,\n5 r,\n!r",
           "4"),
        mk("filter_preempted_by_type", false,
           "r = @{ ! [#'int, #'bin { =x => Ok }] =a, !'bin =b, [b, b] __binary_concat__ __binary_length__ },\n[0xb0, 0x0b] __binary_concat__ r,\n5 r,\n0xc0c0 r,\n!r",
           "4"),
        mk("filter_preempted_by_await", false,
           "c = @{ 7 },\nr = @{ ! [c, #'bin { =x => Ok }] =a, !'bin =b, [b, b] __binary_concat__ __binary_length__ },\n[0xb0, 0x0b] __binary_concat__ r,\n0xc0c0 r,\n!r",
           "4"),
        mk("filter_preempted_by_timeout", false,
           "r = @{ ! [5, #'bin { =x => Ok }] =a, !'bin =b, [b, b] __binary_concat__ __binary_length__ },\n[0xb0, 0x0b] __binary_concat__ r,\n0xc0c0 r,\n!r",
           "4"),
        mk("closure", true,
           "x = [0x01, 0x02] __binary_concat__,\ng = #'bin { [x, ~] __binary_concat__ },\nc = @{ !#(#'bin -> 'bin) =h, 0x09 h },\n&g c,\nr = !c,\n[r, x]",
           "[0x010209, 0x0102]"),
        mk("drop_result", true,
           "c = @{ [0x01, 0x02] __binary_concat__ },\nd = @{ [0x03, 0x04] __binary_concat__ },\n!c,\n!d",
           "0x0304"),
    ]
}

/// Source alphabet of the select under test in `select_mix`.
pub const SELECT_SOURCES: &[(&str, &str)] = &[
    ("c", "c"),                          // await a fast child (result 7)
    ("s", "s"),                          // await a slow child (never finishes)
    ("int", "#'int"),                    // type-only receive of 'int
    ("A", "#A['int]"),                   // type-only receive of A['int]
    ("eq2", "#'int { =&k => Ok }"),      // filter: accepts the integer 2
    ("eq1v", "#'int { =&j => 99 }"),     // filter with a non-Ok truthy verdict: accepts 1
    ("t0", "0"),                         // timeout 0
    ("t5", "5"),                         // timeout 5 ms
];

/// `select_mix(sources, senders)`: a receiver runs one select over the given source list, then
/// drains its mailbox with three `! [any, 0]` and reports `[selected, left1, left2, left3]`.
/// The parent (single sender), or with `two_senders` the parent and a helper, send 1, A[4], 2.
pub fn select_mix(sources: &[usize], two_senders: bool) -> Scenario {
    let names: Vec<&str> = sources.iter().map(|i| SELECT_SOURCES[*i].0).collect();
    let srcs: Vec<&str> = sources.iter().map(|i| SELECT_SOURCES[*i].1).collect();
    let mut s = String::new();
    s.push_str("'m = 'int | A['int]\n");
    s.push_str("c = @{ 7 },\n");
    s.push_str("s = @{ !'bin },\n");
    s.push_str(&format!(
        "r = @{{ k = 2, j = 1, v = ! [{}], d1 = ! [#'m, 0], d2 = ! [#'m, 0], d3 = ! [#'m, 0], [v, d1, d2, d3] }},\n",
        srcs.join(", ")
    ));
    if two_senders {
        s.push_str("h = @{ A[4] r, Ok },\n1 r,\n2 r,\n");
    } else {
        s.push_str("1 r,\nA[4] r,\n2 r,\n");
    }
    s.push_str("!r");
    Scenario {
        id: format!("select_mix([{}]{})", names.join(","), if two_senders { ",2s" } else { "" }),
        family: "select_mix",
        source: s,
        confluent: false,
        io: false,
        expect: None,
    }
}

pub fn select_mix_all(thorough: bool) -> Vec<Scenario> {
    let n = SELECT_SOURCES.len();
    let mut v = vec![];
    for a in 0..n {
        if a != 1 {
            v.push(select_mix(&[a], false));
        }
        for b in 0..n {
            if a != b {
                v.push(select_mix(&[a, b], false));
            }
        }
    }
    // triples: one await, one receive/filter, one timeout, in every order (+ a few all-receive)
    let awaits = [0usize, 1];
    let recvs = [2usize, 3, 4, 5];
    let timeouts = [6usize, 7];
    let mut triples: Vec<[usize; 3]> = vec![];
    for a in awaits {
        for r in recvs {
            for t in timeouts {
                for p in permutations(3) {
                    let base = [a, r, t];
                    triples.push([base[p[0]], base[p[1]], base[p[2]]]);
                }
            }
        }
    }
    for p in permutations(3) {
        let base = [4usize, 5, 3];
        triples.push([base[p[0]], base[p[1]], base[p[2]]]);
        let base = [4usize, 2, 0];
        triples.push([base[p[0]], base[p[1]], base[p[2]]]);
    }
    for (i, t) in triples.iter().enumerate() {
        if thorough || i % 8 == 0 {
            v.push(select_mix(t, false));
        }
    }
    // two senders: a handful of pairs
    for pair in [[4usize, 2], [2, 4], [5, 4], [4, 0], [0, 4], [3, 7], [4, 7], [7, 4]] {
        v.push(select_mix(&pair, true));
    }
    v
}

/// Failure scenarios (C15). `expect` lists `path=rendering` (exact) and `path==path` (same
/// result) constraints separated by `; `; `ERR` alone means "some runtime error".
pub fn fail_all() -> Vec<Scenario> {
    let mk = |id: &str, confluent: bool, src: &str, expect: &str| Scenario {
        id: format!("fail_{}", id),
        family: "fail",
        source: src.to_string(),
        confluent,
        io: false,
        expect: Some(expect.to_string()),
    };
    let div = "InvalidArgument(\"Division by zero\")";
    vec![
        mk("child_awaited", true,
           "c = @{ [1, 0] __integer_divide__ },\ng = @{ 5 },\na = !g,\n!c",
           &format!("r.0=ERR {d}; r==r.0; r.1=5", d = div)),
        mk("child_not_awaited", true,
           "c = @{ [1, 0] __integer_divide__ },\ng = @{ 5 },\n!g",
           &format!("r.0=ERR {d}; r=5; r.1=5", d = div)),
        mk("await_before", true,
           "c = @{ !'int =x, [1, x] __integer_divide__ },\nw = @{ !c },\n0 c,\n!w",
           &format!("r.0=ERR {d}; r.1==r.0; r==r.0", d = div)),
        mk("await_after", true,
           "c = @{ [1, 0] __integer_divide__ },\nd = @{ !'int },\n5 d,\nx = !d,\n!c",
           &format!("r.0=ERR {d}; r.1=5; r==r.0", d = div)),
        mk("two_awaiters", true,
           "'t = (@-> 'int)\nc = @{ !'int =x, [1, x] __integer_divide__ },\nw1 = &c @'t { =p => !p },\nw2 = &c @'t { =p => !p },\ng = @{ 5 },\n0 c,\n!g",
           &format!("r.0=ERR {d}; r.1==r.0; r.2==r.0; r=5; r.3=5", d = div)),
        mk("race_with_failed", false,
           "col = @{ !'int },\nst = @{ !'int =x, [1, x] __integer_divide__ col },\n0 st,\n! [col, st]",
           &format!("r.1=ERR {d}; r==r.1; r.0=<running>", d = div)),
        mk("filter_send", true,
           "p1 = @{ !'int },\np2 = @{ ! [#'int { 42 p1, Ok }] },\n10 p2,\n!p2",
           "r.1=ERR OperationNotAllowed { operation: \"send\", context: \"receive function\" }; r==r.1; r.0=<running>"),
        mk("filter_spawn", true,
           "p = @{ ! [#'int { @{ 42 }, Ok }] },\n10 p,\n!p",
           "r.0=ERR OperationNotAllowed { operation: \"spawn\", context: \"receive function\" }; r==r.0"),
        mk("filter_select", true,
           "p = @{ ! [#'int { !'int, Ok }] },\n10 p,\n11 p,\n!p",
           "r.0=ERR; r==r.0"),
        mk("send_to_failed", true,
           "c = @{ !'int =x, [1, x] __integer_divide__ },\n0 c,\n5 c,\n6 c,\ng = @{ 9 },\n!g",
           &format!("r.0=ERR {d}; r=9; r.1=9", d = div)),
        mk("slice_range", true,
           "c = @{ [0x0102, 1, 9] __binary_slice__ },\ng = @{ 5 },\na = !g,\n!c",
           "r.0=ERR; r==r.0; r.1=5"),
        mk("chain_of_awaiters", true,
           "p = @{ q = @{ c = @{ [1, 0] __integer_divide__ }, !c }, !q },\ng = @{ 5 },\n!g,\n!p",
           &format!("r.0.0.0=ERR {d}; r.0.0==r.0.0.0; r.0==r.0.0.0; r==r.0.0.0; r.1=5", d = div)),
        mk("failed_and_ok_race", false,
           "c = @{ [1, 0] __integer_divide__ },\ng = @{ 5 },\n! [g, c]",
           &format!("r.0=ERR {d}; r.1=5; r=5 || r==r.0", d = div)),
    ]
}

/// Resource scenarios (C14) over the instrumented in-memory file backend.
pub fn res_all() -> Vec<Scenario> {
    let mk = |id: &str, src: &str| Scenario {
        id: format!("res_{}", id),
        family: "res",
        source: src.to_string(),
        confluent: false,
        io: true,
        expect: None,
    };
    let open = "[0x61, 0, 0] __file_open__";
    vec![
        // child opens, writes, reads back, terminates; parent awaits it
        mk("child_awaited", &format!(
            "c = @{{ f = {open}, [f, 0, 0x0102] __file_write__, [f, 0, 2] __file_read__ }},\n!c", open = open)),
        // child opens and terminates; nobody ever awaits it
        mk("child_unawaited", &format!(
            "c = @{{ f = {open}, [f, 0, 0x0102] __file_write__ }},\ng = @{{ 5 }},\n!g", open = open)),
        // the entry process itself owns a resource when it terminates
        mk("entry_owner", &format!(
            "f = {open},\n[f, 0, 0x0102] __file_write__", open = open)),
        // the entry (session) process fails while it owns a resource: it cannot be resumed
        mk("entry_owner_fails", &format!(
            "f = {open},\n[f, 0, 0x0102] __file_write__,\n[1, 0] __integer_divide__", open = open)),
        // a never-awaited child fails while it owns a resource
        mk("child_unawaited_fails", &format!(
            "c = @{{ f = {open}, [f, 0, 0x0102] __file_write__, [1, 0] __integer_divide__ }},\ng = @{{ 5 }},\n!g", open = open)),
        // a never-awaited child owns a resource and is failed from outside: a process it awaits
        // fails (on the same worker or another one)
        mk("child_unawaited_fails_by_await", &format!(
            "c = @{{ f = {open}, d = @{{ !'int =x, [1, x] __integer_divide__ }}, 0 d, !d }},\ng = @{{ 5 }},\n!g", open = open)),
        // a never-awaited owner is killed by an effect that fails: the environment refuses an
        // operation on a handle it gave away / the backend rejects an operation on a closed one
        mk("owner_dies_by_refused_effect", &format!(
            "'hd = Hold[\\File]\n'kt = (@'hd)\nk = @{{ !#'hd =m, !#'hd }},\nc = &k @'kt {{ =kp => g = [0x62, 0, 0] __file_open__, h = {open}, Hold[h] kp, [h, 0, 0x01] __file_write__ }},\nd = @{{ 5 }},\n!d", open = open)),
        mk("owner_dies_by_backend_error", &format!(
            "c = @{{ g = [0x62, 0, 0] __file_open__, f = {open}, f __file_close__, [f, 0, 2] __file_read__ }},\nd = @{{ 5 }},\n!d", open = open)),
        // handle sent in a message; the recipient uses it; the sender may no longer
        mk("send", &format!(
            "'rd = Read[\\File]\nr = @{{ !#'rd {{ =Read[f] => [f, 0, 2] __file_read__ }} }},\nf = {open},\n[f, 0, 0x0a0b] __file_write__,\nRead[f] r,\n!r", open = open)),
        mk("send_then_use", &format!(
            "'hd = Hold[\\File]\nh = @{{ !#'hd =m, !'int }},\nf = {open},\nHold[f] h,\n[f, 0, 0x01] __file_write__", open = open)),
        mk("send_use_after_recipient_done", &format!(
            "'rd = Read[\\File]\nr = @{{ !#'rd {{ =Read[f] => [f, 0, 0x07] __file_write__ }} }},\nf = {open},\nRead[f] r,\n!r,\n[f, 0, 2] __file_read__", open = open)),
        // handle nested in a tuple inside the message
        mk("send_nested", &format!(
            "'rd = Read[[\\File, 'int]]\nr = @{{ !#'rd {{ =Read[[f, n]] => [f, 0, 0x07] __file_write__ }} }},\nf = {open},\nRead[[f, 3]] r,\n!r", open = open)),
        // handle passed as the spawn argument
        mk("spawn_arg", &format!(
            "f = {open},\nu = #\\File {{ [~, 0, 0x0c] __file_write__ }},\nc = f @u,\n!c", open = open)),
        // handle captured by the spawned function
        mk("spawn_capture", &format!(
            "f = {open},\nc = @{{ [f, 0, 0x0d] __file_write__ }},\n!c", open = open)),
        mk("spawn_capture_then_use", &format!(
            "f = {open},\nc = @{{ !'int, [f, 0, 0x0d] __file_write__ }},\n[f, 0, 0x0e] __file_write__", open = open)),
        // handle captured in a closure that is sent in a message; the recipient calls it
        mk("send_closure", &format!(
            "f = {open},\ng = #'int {{ [f, 0, 0x0d] __file_write__ }},\nc = @{{ !#(#'int -> 'int) =h, 1 h }},\n&g c,\n!c", open = open)),
        mk("send_closure_then_use", &format!(
            "f = {open},\ng = #'int {{ [f, 0, 0x0d] __file_write__ }},\nc = @{{ !#(#'int -> 'int) =h, !'bin }},\n&g c,\n[f, 0, 0x01] __file_write__", open = open)),
        // spawn with the handle nested in the argument tuple / inside a closure the child captures
        mk("spawn_arg_nested", &format!(
            "'at = [\\File, 'int]\nf = {open},\nc = [f, 5] @'at {{ =[h, n] => [h, 0, 0x07] __file_write__ }},\n!c", open = open)),
        mk("spawn_arg_nested_then_use", &format!(
            "'at = [\\File, 'int]\nf = {open},\nc = [f, 5] @'at {{ =[h, n] => !'bin }},\n[f, 0, 0x01] __file_write__", open = open)),
        mk("spawn_captured_closure", &format!(
            "f = {open},\ng = #'int {{ [f, 0, 0x0d] __file_write__ }},\nc = @{{ 1 g }},\n!c", open = open)),
        mk("spawn_captured_closure_then_use", &format!(
            "f = {open},\ng = #'int {{ [f, 0, 0x0d] __file_write__ }},\nc = @{{ !'bin, 1 g }},\n[f, 0, 0x01] __file_write__", open = open)),
        // a child opens, hands the handle to a keeper, and terminates (awaited) right away: the
        // transfer and the child's completion report can arrive in the same environment step
        mk("child_sends_then_dies", &format!(
            "'hd = Hold[\\File]\n'kt = (@'hd)\nk = @{{ !#'hd {{ =Hold[f] => [f, 0, 0x07] __file_write__ }} }},\nc = &k @'kt {{ =kp => f = {open}, Hold[f] kp, 5 }},\nx = !c,\ny = !k,\n[x, y]", open = open)),
        mk("child_spawns_heir_then_dies", &format!(
            "c = @{{ f = {open}, h = @{{ !'int, [f, 0, 0x09] __file_write__ }}, &h }},\nh = !c,\n1 h,\n!h", open = open)),
        // TCP: an accepted socket is a new resource created by an operation on the listener
        mk("tcp_accept_owner_dies", "c = @{ l = [8080, 4] __tcp_listen__, s = l __tcp_listener_accept__, [s, 0x01] __tcp_socket_write__ },\n!c"),
        mk("tcp_accept_returned", "c = @{ l = [8080, 4] __tcp_listen__, l __tcp_listener_accept__ },\ns = !c,\n[s, 0x01] __tcp_socket_write__"),
        mk("tcp_accept_sent", "'sk = Sock[\\TcpSocket]\nc = @{ w = @{ !#'sk { =Sock[s] => [s, 0x0102] __tcp_socket_write__ } }, l = [8080, 4] __tcp_listen__, s = l __tcp_listener_accept__, Sock[s] w, !w },\n!c"),
        // handle left in the mailbox of a process that terminates without receiving it
        mk("left_in_mailbox", &format!(
            "'hd = Hold[\\File]\nh = @{{ !'int =x, !#'hd, x }},\nf = {open},\nHold[f] h,\n5 h,\n!h", open = open)),
        mk("never_received", &format!(
            "'hd = Hold[\\File]\nh = @{{ !'int =x, x {{ =0 => {{ !#'hd, 0 }} | 9 }} }},\nf = {open},\nHold[f] h,\n5 h,\n!h", open = open)),
        // two resources, two owners, owner awaited twice
        mk("two_resources", &format!(
            "a = @{{ f = {open}, [f, 0, 0x01] __file_write__ }},\nb = @{{ g = [0x62, 0, 0] __file_open__, [g, 0, 0x02] __file_write__ }},\nx = !a,\ny = !b,\nz = !a,\n[x, y, z]", open = open)),
        mk("two_awaiters", &format!(
            "'t = (@-> 'int)\nc = @{{ f = {open}, !'int =x, [f, 0, 0x01] __file_write__ }},\nw = &c @'t {{ =p => !p }},\n1 c,\na = !c,\nb = !w,\n[a, b]", open = open)),
        // explicit close by the owner, then owner terminates
        mk("explicit_close", &format!(
            "c = @{{ f = {open}, f __file_close__, 3 }},\n!c", open = open)),
        // handle sent to a process that has already terminated
        mk("send_to_dead", &format!(
            "'hd = Hold[\\File]\nh = @{{ !'int =x, x {{ =0 => {{ !#'hd, 0 }} | 9 }} }},\n5 h,\n!h,\nf = {open},\nHold[f] h,\ng = @{{ 1 }},\n!g", open = open)),
    ]
}
