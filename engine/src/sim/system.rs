//! Engine A core: the *real* `Environment`, `Worker` and `Executor` closed over harness-owned
//! queues, clock and effect backend. Every source of nondeterminism of the threaded runtime is a
//! decision of the caller of [`System::apply`].
//!
//! Each worker runs as a stackful coroutine around the unmodified `Worker::step`; its command
//! receiver suspends at every `try_recv`, so one `Worker::step` call is cut into the pieces
//! `(recv ; send*)* ; local ; send*` that are atomic in the threaded runtime.

use corosensei::stack::DefaultStack;
use corosensei::{Coroutine, CoroutineResult, Yielder};
use quiver_core::bytecode::Bytecode;
use quiver_core::effects::{EffectBackend, EffectResult, ResultTupleInfo};
use quiver_core::process::ProcessId;
use quiver_core::value::{ResourceId, Value};
use quiver_environment::{
    Command, CommandReceiver, Environment, EnvironmentError, Event, EventSender, RequestResult,
    Worker, WorkerHandle,
};
use quiver_io::NativeEffect;
use std::cell::{Cell, RefCell};
use std::collections::{BTreeMap, VecDeque};
use std::panic::{AssertUnwindSafe, catch_unwind};
use std::rc::Rc;

pub type E = NativeEffect;
pub type Cmd = Command<E>;
pub type Evt = Event<E>;
pub type SimWorker = Worker<E, CoRecv, CoSend>;

type CmdQ = Rc<RefCell<VecDeque<Cmd>>>;
type EvtQ = Rc<RefCell<VecDeque<Evt>>>;

thread_local! {
    pub static LAST_PANIC: RefCell<String> = const { RefCell::new(String::new()) };
}

pub fn install_panic_recorder() {
    std::panic::set_hook(Box::new(|info| {
        let msg = format!("{}", info);
        LAST_PANIC.with(|p| *p.borrow_mut() = msg);
    }));
}

pub fn take_panic() -> String {
    LAST_PANIC.with(|p| std::mem::take(&mut *p.borrow_mut()))
}

// ------------------------------------------------------------------------------------------
// Transport endpoints

/// Environment-side handle. `budget` is the number of events the current `Environment::step`
/// may still see on this queue (the visibility prefix).
pub struct SimHandle {
    cmd: CmdQ,
    evt: EvtQ,
    budget: Rc<Cell<usize>>,
}

// SAFETY: `WorkerHandle` requires `Send` because the production handles cross threads. The
// simulator is strictly single-threaded: a `SimHandle` is created, used and dropped on one thread.
unsafe impl Send for SimHandle {}

impl WorkerHandle<E> for SimHandle {
    fn send(&mut self, command: Cmd) -> Result<(), EnvironmentError> {
        self.cmd.borrow_mut().push_back(command);
        Ok(())
    }
    fn try_recv(&mut self) -> Result<Option<Evt>, EnvironmentError> {
        if self.budget.get() == 0 {
            return Ok(None);
        }
        match self.evt.borrow_mut().pop_front() {
            Some(e) => {
                self.budget.set(self.budget.get() - 1);
                Ok(Some(e))
            }
            None => Ok(None),
        }
    }
}

pub enum WIn {
    Step(u64),
    Reply(Option<Cmd>),
    With(Box<dyn FnOnce(&mut SimWorker)>),
    Stop,
}

pub enum WOut {
    Ask,
    Done(Result<Result<bool, EnvironmentError>, String>),
    Ready,
}

/// Worker-side command receiver: every `try_recv` is a scheduling point.
pub struct CoRecv {
    y: *const Yielder<WIn, WOut>,
}

impl CommandReceiver<E> for CoRecv {
    fn try_recv(&mut self) -> Result<Option<Cmd>, EnvironmentError> {
        // SAFETY: the yielder outlives the worker (both live inside the coroutine body).
        let y = unsafe { &*self.y };
        match y.suspend(WOut::Ask) {
            WIn::Reply(x) => Ok(x),
            _ => panic!("simulator protocol error: expected Reply"),
        }
    }
}

pub struct CoSend {
    evt: EvtQ,
}

impl EventSender<E> for CoSend {
    fn send(&mut self, event: Evt) -> Result<(), EnvironmentError> {
        self.evt.borrow_mut().push_back(event);
        Ok(())
    }
}

type WorkerCo = Coroutine<WIn, WOut, (), DefaultStack>;

fn new_worker_co(
    id: u16,
    evt: EvtQ,
    builtins: quiver_core::builtins::BuiltinRegistry<E>,
    stack: DefaultStack,
) -> WorkerCo {
    Coroutine::with_stack(stack, move |yielder: &Yielder<WIn, WOut>, first: WIn| {
        let recv = CoRecv {
            y: yielder as *const _,
        };
        let send = CoSend { evt };
        let mut worker: SimWorker = Worker::new(recv, send, builtins, false, id);
        let mut input = first;
        loop {
            match input {
                WIn::Step(now) => {
                    let r = catch_unwind(AssertUnwindSafe(|| worker.step(now)))
                        .map_err(|_| take_panic());
                    input = yielder.suspend(WOut::Done(r));
                }
                WIn::With(f) => {
                    f(&mut worker);
                    input = yielder.suspend(WOut::Ready);
                }
                WIn::Reply(_) => panic!("simulator protocol error: unexpected Reply"),
                WIn::Stop => return,
            }
        }
    })
}

// ------------------------------------------------------------------------------------------
// Instrumented effect backend (in-memory files)

#[derive(Clone, Debug, PartialEq, Eq)]
pub enum BackendLog {
    Execute {
        pid: ProcessId,
        effect: String,
        resource: Option<ResourceId>,
    },
    Created {
        pid: ProcessId,
        resource: ResourceId,
    },
    Close {
        resource: ResourceId,
        was_open: bool,
        via_effect: bool,
    },
}

#[derive(Default)]
pub struct BackendState {
    pub next_resource: ResourceId,
    pub open: BTreeMap<ResourceId, String>,
    pub files: BTreeMap<Vec<u8>, Vec<u8>>,
    pub log: Vec<BackendLog>,
    /// Deferred effects: (pid, result) not yet released to `process_completions`.
    pub deferred: Vec<(ProcessId, EffectResult)>,
    /// Released completions, returned by the next `process_completions`.
    pub ready: Vec<(ProcessId, EffectResult)>,
    /// When true, `execute` defers the completion instead of answering immediately.
    pub defer_next: bool,
    pub resource_type_ids: BTreeMap<String, usize>,
    pub result_infos: BTreeMap<String, ResultTupleInfo>,
}

pub struct SimBackend {
    pub st: Rc<RefCell<BackendState>>,
}

// SAFETY: as for `SimHandle` — single-threaded use only.
unsafe impl Send for SimBackend {}

impl BackendState {
    fn resource_value(&self, rid: ResourceId, type_name: &str) -> Value {
        let type_id = self.resource_type_ids.get(type_name).copied().unwrap_or(0);
        Value::Resource(rid, type_id)
    }

    fn run(&mut self, pid: ProcessId, effect: &NativeEffect) -> EffectResult {
        use quiver_core::effects::EffectError;
        match effect {
            NativeEffect::FileOpen { path, .. } => {
                let rid = self.next_resource;
                self.next_resource += 1;
                self.open.insert(rid, String::from_utf8_lossy(path).to_string());
                self.files.entry(path.clone()).or_default();
                self.log.push(BackendLog::Created { pid, resource: rid });
                Ok((self.resource_value(rid, "File"), vec![]))
            }
            NativeEffect::FileRead {
                resource_id,
                offset,
                length,
            } => {
                let Some(path) = self.open.get(resource_id) else {
                    return Err(EffectError::InvalidArgument("file not open".into()));
                };
                let data = self.files.get(path.as_bytes()).cloned().unwrap_or_default();
                let start = (*offset as usize).min(data.len());
                let end = start.saturating_add(*length).min(data.len());
                Ok((
                    Value::Binary(quiver_core::value::Binary::Heap(0)),
                    vec![data[start..end].to_vec()],
                ))
            }
            NativeEffect::FileWrite {
                resource_id,
                offset,
                data,
            } => {
                let Some(path) = self.open.get(resource_id).cloned() else {
                    return Err(EffectError::InvalidArgument("file not open".into()));
                };
                let file = self.files.entry(path.into_bytes()).or_default();
                let off = (*offset as usize).min(file.len());
                if file.len() < off + data.len() {
                    file.resize(off + data.len(), 0);
                }
                file[off..off + data.len()].copy_from_slice(data);
                Ok((Value::Integer(data.len().into()), vec![]))
            }
            NativeEffect::FileFlush { resource_id } => {
                if self.open.contains_key(resource_id) {
                    Ok((Value::ok(), vec![]))
                } else {
                    Err(EffectError::InvalidArgument("file not open".into()))
                }
            }
            NativeEffect::FileClose { resource_id } => {
                let was_open = self.open.remove(resource_id).is_some();
                self.log.push(BackendLog::Close {
                    resource: *resource_id,
                    was_open,
                    via_effect: true,
                });
                if was_open {
                    Ok((Value::ok(), vec![]))
                } else {
                    Err(EffectError::InvalidArgument("file not open".into()))
                }
            }
            // minimal in-memory TCP: a listener is a resource; every accept yields a fresh
            // socket resource at once; sockets echo what was written
            NativeEffect::TcpListen { port, .. } => {
                let rid = self.next_resource;
                self.next_resource += 1;
                self.open.insert(rid, format!("listener:{}", port));
                self.log.push(BackendLog::Created { pid, resource: rid });
                Ok((self.resource_value(rid, "TcpListener"), vec![]))
            }
            NativeEffect::TcpListenerAccept { resource_id } => {
                if !self.open.contains_key(resource_id) {
                    return Err(EffectError::InvalidArgument("listener not open".into()));
                }
                let rid = self.next_resource;
                self.next_resource += 1;
                self.open.insert(rid, format!("socket-of:{}", resource_id));
                self.log.push(BackendLog::Created { pid, resource: rid });
                Ok((self.resource_value(rid, "TcpSocket"), vec![]))
            }
            NativeEffect::TcpSocketWrite { resource_id, data } => {
                if self.open.contains_key(resource_id) {
                    Ok((Value::Integer(data.len().into()), vec![]))
                } else {
                    Err(EffectError::InvalidArgument("socket not open".into()))
                }
            }
            NativeEffect::TcpSocketRead { resource_id, .. } => {
                if self.open.contains_key(resource_id) {
                    Ok((
                        Value::Binary(quiver_core::value::Binary::Heap(0)),
                        vec![vec![0x68, 0x69]],
                    ))
                } else {
                    Err(EffectError::InvalidArgument("socket not open".into()))
                }
            }
            NativeEffect::TcpSocketClose { resource_id } | NativeEffect::TcpListenerClose { resource_id } => {
                let was_open = self.open.remove(resource_id).is_some();
                self.log.push(BackendLog::Close {
                    resource: *resource_id,
                    was_open,
                    via_effect: true,
                });
                if was_open {
                    Ok((Value::ok(), vec![]))
                } else {
                    Err(EffectError::InvalidArgument("not open".into()))
                }
            }
            other => Err(EffectError::Other(format!(
                "effect not modelled by the simulator backend: {:?}",
                other
            ))),
        }
    }
}

impl EffectBackend for SimBackend {
    type E = NativeEffect;

    fn execute(
        &mut self,
        process_id: ProcessId,
        effect: NativeEffect,
    ) -> Result<Option<EffectResult>, quiver_core::error::Error> {
        use quiver_core::effects::Effect;
        let mut st = self.st.borrow_mut();
        st.log.push(BackendLog::Execute {
            pid: process_id,
            effect: format!("{:?}", effect),
            resource: effect.resource_id(),
        });
        let result = st.run(process_id, &effect);
        if st.defer_next {
            st.deferred.push((process_id, result));
            Ok(None)
        } else {
            Ok(Some(result))
        }
    }

    fn process_completions(&mut self) -> Vec<(ProcessId, EffectResult)> {
        std::mem::take(&mut self.st.borrow_mut().ready)
    }

    fn close_resource(&mut self, resource_id: ResourceId) {
        let mut st = self.st.borrow_mut();
        let was_open = st.open.remove(&resource_id).is_some();
        st.log.push(BackendLog::Close {
            resource: resource_id,
            was_open,
            via_effect: false,
        });
    }

    fn set_type_ids(&mut self, resources: &[String], results: &[(String, ResultTupleInfo)]) {
        let mut st = self.st.borrow_mut();
        for (i, name) in resources.iter().enumerate() {
            st.resource_type_ids.insert(name.clone(), i);
        }
        for (name, info) in results {
            st.result_infos.insert(name.clone(), info.clone());
        }
    }
}

// ------------------------------------------------------------------------------------------
// The system

#[derive(Clone, Debug, PartialEq, Eq, Hash, PartialOrd, Ord)]
pub enum Act {
    /// One `Environment::step` that sees the given number of events on each worker's queue.
    Env(Vec<usize>),
    /// Worker i handles the command at the head of its queue (one `recv ; send*` piece).
    Deliver(usize),
    /// Worker i observes `Empty`, runs one executor slice, routes its action, reports completions.
    Run(usize),
    /// The virtual clock advances to t.
    Clock(u64),
    /// The k-th deferred effect completes (becomes visible to the next environment step).
    Complete(usize),
    /// The host issues `request_result` for the entry process.
    Request,
}

impl Act {
    pub fn label(&self) -> String {
        match self {
            Act::Env(v) => format!(
                "E[{}]",
                v.iter().map(|x| x.to_string()).collect::<Vec<_>>().join(",")
            ),
            Act::Deliver(i) => format!("W{}:recv", i),
            Act::Run(i) => format!("W{}:run", i),
            Act::Clock(t) => format!("clock={}", t),
            Act::Complete(k) => format!("complete#{}", k),
            Act::Request => "request".to_string(),
        }
    }
}

#[derive(Clone, Debug)]
pub struct Config {
    pub workers: usize,
    pub quantum: usize,
    /// Issue the entry `request_result` before anything runs (true) or only at quiescence.
    pub request_early: bool,
    pub io: bool,
    /// Effects complete immediately (false) or are deferred until a `Complete` action (true).
    pub defer_effects: bool,
}

impl Config {
    pub fn label(&self) -> String {
        format!(
            "W{}q{}{}{}",
            self.workers,
            self.quantum,
            if self.request_early { "" } else { "L" },
            if self.defer_effects { "D" } else { "" }
        )
    }
}

pub struct WorkerSlot {
    co: WorkerCo,
    /// `Some(now)` while a `Worker::step(now)` call is suspended at a `try_recv`.
    pub mid_step: Option<u64>,
    /// Canonical encodings of the commands consumed by the suspended step so far.
    pub consumed: Vec<String>,
    /// Fingerprint of the worker taken when it was last idle (and its hash).
    pub idle_fp: String,
    pub idle_hash: u128,
    pub has_runnable: bool,
    pub next_timeout: Option<u64>,
    pub dead: bool,
}

pub struct System {
    pub cfg: Config,
    pub env: Environment<E>,
    pub workers: Vec<WorkerSlot>,
    pub cmdq: Vec<CmdQ>,
    pub evtq: Vec<EvtQ>,
    budgets: Vec<Rc<Cell<usize>>>,
    pub backend: Rc<RefCell<BackendState>>,
    pub clock: u64,
    pub entry_pid: ProcessId,
    pub request_id: Option<u64>,
    pub entry_result: Option<Result<(Value, Vec<Vec<u8>>), quiver_core::error::Error>>,
    /// Panics and `Err`s returned by `Worker::step` / `Environment::step`.
    pub errors: Vec<String>,
    /// (parent pid, ordinal of this spawn among the parent's spawns) for every spawned pid.
    pub spawn_tree: BTreeMap<ProcessId, (ProcessId, usize)>,
    spawn_counts: BTreeMap<ProcessId, usize>,
    pub history: Vec<Act>,
    pub steps_env: usize,
    pub steps_worker: usize,
    /// Index (0 = environment, 1 + i = worker i) of the component that acted last.
    pub last_component: usize,
    pub select_log: Vec<quiver_core::executor::verif::SelectRecord>,
    /// (io configurations only) the events the last environment step consumed, in order, and
    /// the value of `next_process_id` before it ran.
    pub last_env_input: Vec<Evt>,
    pub last_env_next_pid: ProcessId,
    /// Compute the per-worker state fingerprint at every idle point (needed for state hashing;
    /// long-lived sessions switch it off).
    pub fingerprints: bool,
}

pub fn builtin_registry(io: bool) -> quiver_core::builtins::BuiltinRegistry<E> {
    let mut builtins = quiver_core::builtins::BuiltinRegistry::<E>::with_modules(
        &quiver_core::builtins::core_modules(),
    );
    if io {
        quiver_io::attach_file_builtins(&mut builtins);
        quiver_io::attach_network_builtins(&mut builtins);
    }
    builtins
}

thread_local! {
    static STACK_POOL: RefCell<Vec<DefaultStack>> = const { RefCell::new(Vec::new()) };
}

fn take_stack() -> DefaultStack {
    STACK_POOL
        .with(|p| p.borrow_mut().pop())
        .unwrap_or_else(|| DefaultStack::new(64 * 1024 * 1024).expect("coroutine stack"))
}

impl System {
    pub fn new(cfg: Config, bytecode: Bytecode) -> Result<System, String> {
        Self::boot(cfg, Some(bytecode))
    }

    /// Build the system; with `None` no process is started (used by REPL sessions).
    pub fn boot(cfg: Config, bytecode: Option<Bytecode>) -> Result<System, String> {
        quiver_core::executor::verif::set_quantum(Some(cfg.quantum));
        quiver_core::executor::verif::select_log_start();
        let builtins = builtin_registry(cfg.io);
        let mut cmdq = vec![];
        let mut evtq = vec![];
        let mut budgets = vec![];
        let mut handles: Vec<Box<dyn WorkerHandle<E>>> = vec![];
        let mut workers = vec![];
        for i in 0..cfg.workers {
            let c: CmdQ = Rc::new(RefCell::new(VecDeque::new()));
            let e: EvtQ = Rc::new(RefCell::new(VecDeque::new()));
            let b = Rc::new(Cell::new(0usize));
            handles.push(Box::new(SimHandle {
                cmd: c.clone(),
                evt: e.clone(),
                budget: b.clone(),
            }));
            let co = new_worker_co(i as u16, e.clone(), builtins.clone(), take_stack());
            workers.push(WorkerSlot {
                co,
                mid_step: None,
                consumed: vec![],
                idle_fp: String::new(),
                idle_hash: 0,
                has_runnable: false,
                next_timeout: None,
                dead: false,
            });
            cmdq.push(c);
            evtq.push(e);
            budgets.push(b);
        }
        let mut env = Environment::<E>::new(handles);
        let backend = Rc::new(RefCell::new(BackendState {
            defer_next: cfg.defer_effects,
            ..Default::default()
        }));
        if cfg.io {
            env.set_effect_backend(Box::new(SimBackend {
                st: backend.clone(),
            }));
        }
        let has_entry = bytecode.is_some();
        let entry_pid = match bytecode {
            Some(bc) => env
                .start_process(Some(bc))
                .map_err(|e| format!("start_process: {:?}", e))?,
            None => usize::MAX,
        };
        let mut sys = System {
            cfg,
            env,
            workers,
            cmdq,
            evtq,
            budgets,
            backend,
            clock: 0,
            entry_pid,
            request_id: None,
            entry_result: None,
            errors: vec![],
            spawn_tree: BTreeMap::new(),
            spawn_counts: BTreeMap::new(),
            history: vec![],
            steps_env: 0,
            steps_worker: 0,
            last_component: 0,
            select_log: vec![],
            last_env_input: vec![],
            last_env_next_pid: 0,
            fingerprints: true,
        };
        if sys.cfg.request_early && has_entry {
            sys.issue_request();
        }
        if !has_entry {
            // sessions issue their own requests; never let the scheduler issue one
            sys.request_id = Some(u64::MAX);
        }
        for i in 0..sys.workers.len() {
            sys.refresh_idle(i);
        }
        Ok(sys)
    }

    /// Merge `bytecode` into the running environment as a new process (no result requested).
    pub fn start_background(&mut self, bytecode: Bytecode) -> Result<ProcessId, String> {
        self.env
            .start_process(Some(bytecode))
            .map_err(|e| format!("start_process: {:?}", e))
    }

    /// Merge `bytecode` as the entry process of a system booted without one, and request its result.
    pub fn start_entry(&mut self, bytecode: Bytecode) -> Result<(), String> {
        let pid = self.start_background(bytecode)?;
        self.entry_pid = pid;
        self.request_id = None;
        self.entry_result = None;
        self.issue_request();
        Ok(())
    }

    fn issue_request(&mut self) {
        match self.env.request_result(self.entry_pid, None) {
            Ok(id) => self.request_id = Some(id),
            Err(e) => self.errors.push(format!("request_result: {:?}", e)),
        }
    }

    /// Run `f` on worker `i`, which must be idle (between `Worker::step` calls).
    pub fn with_worker<T: 'static>(
        &mut self,
        i: usize,
        f: impl FnOnce(&mut SimWorker) -> T + 'static,
    ) -> T {
        assert!(self.workers[i].mid_step.is_none(), "worker {} is mid-step", i);
        let cell: Rc<RefCell<Option<T>>> = Rc::new(RefCell::new(None));
        let c2 = cell.clone();
        let boxed: Box<dyn FnOnce(&mut SimWorker)> = Box::new(move |w| {
            *c2.borrow_mut() = Some(f(w));
        });
        match self.workers[i].co.resume(WIn::With(boxed)) {
            CoroutineResult::Yield(WOut::Ready) => {}
            _ => panic!("simulator protocol error: expected Ready"),
        }
        cell.borrow_mut().take().expect("with_worker result")
    }

    fn refresh_idle(&mut self, i: usize) {
        if self.workers[i].dead {
            return;
        }
        let want_fp = self.fingerprints;
        let (fp, runnable, timeout) = self.with_worker(i, move |w| {
            let mut s = String::new();
            if want_fp {
                w.verif_executor().verif_fingerprint(&mut s);
                s.push_str(&format!("|V{:?}", w.verif_view()));
            }
            (s, w.has_runnable(), w.next_timeout_ms())
        });
        let slot = &mut self.workers[i];
        slot.idle_hash = super::explore::hash128(&fp);
        slot.idle_fp = fp;
        slot.has_runnable = runnable;
        slot.next_timeout = timeout;
    }

    fn drain_select_log(&mut self) {
        let recs = quiver_core::executor::verif::select_log_drain();
        self.select_log.extend(recs);
    }

    // --------------------------------------------------------------------------------------
    // Enabledness

    pub fn env_enabled(&self) -> bool {
        self.evtq.iter().any(|q| !q.borrow().is_empty()) || !self.backend.borrow().ready.is_empty()
    }

    pub fn deliver_enabled(&self, i: usize) -> bool {
        !self.workers[i].dead && !self.cmdq[i].borrow().is_empty()
    }

    pub fn run_enabled(&self, i: usize) -> bool {
        let w = &self.workers[i];
        if w.dead {
            return false;
        }
        w.mid_step.is_some()
            || w.has_runnable
            || w.next_timeout.map(|t| t <= self.clock).unwrap_or(false)
    }

    pub fn pending_expiries(&self) -> Vec<u64> {
        let mut v: Vec<u64> = self
            .workers
            .iter()
            .filter_map(|w| w.next_timeout)
            .filter(|t| *t > self.clock)
            .collect();
        v.sort_unstable();
        v.dedup();
        v
    }

    pub fn request_enabled(&self) -> bool {
        self.request_id.is_none()
    }

    pub fn quiescent_except_clock(&self) -> bool {
        !self.env_enabled()
            && (0..self.workers.len()).all(|i| !self.deliver_enabled(i) && !self.run_enabled(i))
            && self.backend.borrow().deferred.is_empty()
    }

    // --------------------------------------------------------------------------------------
    // Actions

    pub fn apply(&mut self, act: &Act) -> Result<(), String> {
        self.history.push(act.clone());
        match act {
            Act::Env(vis) => {
                if vis.len() != self.workers.len() {
                    return Err(format!("replay divergence: {} has wrong arity", act.label()));
                }
                for (i, v) in vis.iter().enumerate() {
                    if *v > self.evtq[i].borrow().len() {
                        return Err(format!(
                            "replay divergence: {} but queue {} holds {}",
                            act.label(),
                            i,
                            self.evtq[i].borrow().len()
                        ));
                    }
                    self.budgets[i].set(*v);
                }
                self.note_spawns(vis);
                if self.cfg.io {
                    self.last_env_next_pid = self.env.verif_view().next_process_id;
                    self.last_env_input.clear();
                    for (i, v) in vis.iter().enumerate() {
                        for evt in self.evtq[i].borrow().iter().take(*v) {
                            self.last_env_input.push(evt.clone());
                        }
                    }
                }
                let r = catch_unwind(AssertUnwindSafe(|| self.env.step()));
                for b in &self.budgets {
                    b.set(0);
                }
                self.steps_env += 1;
                self.last_component = 0;
                match r {
                    Ok(Ok(_)) => {}
                    Ok(Err(e)) => self.errors.push(format!("Environment::step returned Err: {:?}", e)),
                    Err(_) => self
                        .errors
                        .push(format!("Environment::step panicked: {}", take_panic())),
                }
                self.poll_entry();
                Ok(())
            }
            Act::Deliver(i) => {
                let i = *i;
                if !self.deliver_enabled(i) {
                    return Err(format!("replay divergence: {} not enabled", act.label()));
                }
                self.ensure_step_started(i);
                let cmd = self.cmdq[i].borrow_mut().pop_front().unwrap();
                self.workers[i].consumed.push(super::canon::cmd(&cmd));
                self.last_component = 1 + i;
                self.resume_reply(i, Some(cmd));
                Ok(())
            }
            Act::Run(i) => {
                let i = *i;
                if self.workers[i].dead {
                    return Err(format!("replay divergence: {} on dead worker", act.label()));
                }
                self.ensure_step_started(i);
                self.last_component = 1 + i;
                self.resume_reply(i, None);
                Ok(())
            }
            Act::Clock(t) => {
                if *t <= self.clock {
                    return Err(format!("replay divergence: {} not in the future", act.label()));
                }
                self.clock = *t;
                Ok(())
            }
            Act::Complete(k) => {
                let mut st = self.backend.borrow_mut();
                if *k >= st.deferred.len() {
                    return Err(format!("replay divergence: {} out of range", act.label()));
                }
                let c = st.deferred.remove(*k);
                st.ready.push(c);
                Ok(())
            }
            Act::Request => {
                if self.request_id.is_some() {
                    return Err("replay divergence: request already issued".into());
                }
                self.issue_request();
                Ok(())
            }
        }
    }

    fn ensure_step_started(&mut self, i: usize) {
        if self.workers[i].mid_step.is_some() {
            return;
        }
        let now = self.clock;
        match self.workers[i].co.resume(WIn::Step(now)) {
            CoroutineResult::Yield(WOut::Ask) => {
                self.workers[i].mid_step = Some(now);
                self.workers[i].consumed.clear();
            }
            CoroutineResult::Yield(WOut::Done(r)) => {
                // step ended before asking for a command (cannot happen with the real worker)
                self.finish_step(i, r);
            }
            _ => panic!("simulator protocol error at step start"),
        }
    }

    fn resume_reply(&mut self, i: usize, reply: Option<Cmd>) {
        if self.workers[i].mid_step.is_none() {
            return;
        }
        match self.workers[i].co.resume(WIn::Reply(reply)) {
            CoroutineResult::Yield(WOut::Ask) => {}
            CoroutineResult::Yield(WOut::Done(r)) => self.finish_step(i, r),
            _ => panic!("simulator protocol error in reply"),
        }
    }

    fn finish_step(&mut self, i: usize, r: Result<Result<bool, EnvironmentError>, String>) {
        self.workers[i].mid_step = None;
        self.workers[i].consumed.clear();
        self.steps_worker += 1;
        match r {
            Ok(Ok(_)) => {}
            Ok(Err(e)) => {
                // The production worker thread reports the error and exits its loop.
                self.errors
                    .push(format!("Worker::step returned Err on worker {}: {:?}", i, e));
                self.workers[i].dead = true;
            }
            Err(p) => {
                self.errors
                    .push(format!("Worker::step panicked on worker {}: {}", i, p));
                self.workers[i].dead = true;
            }
        }
        self.drain_select_log();
        self.refresh_idle(i);
    }

    /// Record, for every `SpawnAction` the coming environment step will see, the pid it will be
    /// given (pids are allocated in arrival order).
    fn note_spawns(&mut self, vis: &[usize]) {
        let mut next = self.env.verif_view().next_process_id;
        for (i, v) in vis.iter().enumerate() {
            for evt in self.evtq[i].borrow().iter().take(*v) {
                if let Event::SpawnAction { caller, .. } = evt {
                    let k = self.spawn_counts.entry(*caller).or_insert(0);
                    self.spawn_tree.insert(next, (*caller, *k));
                    *k += 1;
                    next += 1;
                }
            }
        }
    }

    fn poll_entry(&mut self) {
        if self.entry_result.is_some() {
            return;
        }
        if let Some(id) = self.request_id.filter(|id| *id != u64::MAX) {
            match self.env.poll_request(id) {
                Ok(Some(RequestResult::Result(r, _))) => self.entry_result = Some(r),
                Ok(Some(_)) => self.errors.push("unexpected request result kind".into()),
                Ok(None) => {}
                Err(e) => self.errors.push(format!("poll_request: {:?}", e)),
            }
        }
    }

    /// Spawn path of a process: "r" for the entry process, "r.k" for its k-th spawn, ...
    pub fn path_of(&self, pid: ProcessId) -> String {
        if pid == self.entry_pid {
            return "r".to_string();
        }
        match self.spawn_tree.get(&pid) {
            Some((parent, k)) => format!("{}.{}", self.path_of(*parent), k),
            None => format!("?{}", pid),
        }
    }

    /// Hash of the canonical fingerprint, using the per-worker hashes cached at idle points.
    pub fn state_hash(&self) -> u128 {
        let mut s = String::with_capacity(512);
        s.push_str(&format!("T{}|R{:?}/{}|", self.clock, self.request_id, self.entry_result.is_some()));
        s.push_str(&super::canon::env_view(&self.env.verif_view()));
        for (i, w) in self.workers.iter().enumerate() {
            s.push_str(&format!("\nW{}:{}{:x}", i, if w.dead { "DEAD" } else { "" }, w.idle_hash));
            if let Some(now) = w.mid_step {
                s.push_str(&format!("|MID@{}{:?}", now, w.consumed));
            }
            s.push_str("\nC:");
            for c in self.cmdq[i].borrow().iter() {
                s.push_str(&super::canon::cmd(c));
                s.push(';');
            }
            s.push_str("\nV:");
            for e in self.evtq[i].borrow().iter() {
                s.push_str(&super::canon::evt(e));
                s.push(';');
            }
        }
        let b = self.backend.borrow();
        s.push_str(&format!(
            "\nB:{}|{:?}|{:?}|d{}|r{}",
            b.next_resource,
            b.open,
            b.files,
            b.deferred.len(),
            b.ready.len()
        ));
        super::explore::hash128(&s)
    }

    /// Canonical fingerprint of the whole system.
    pub fn fingerprint(&self) -> String {
        let mut s = String::with_capacity(1024);
        s.push_str(&format!("T{}|R{:?}/{}|", self.clock, self.request_id, self.entry_result.is_some()));
        s.push_str(&super::canon::env_view(&self.env.verif_view()));
        for (i, w) in self.workers.iter().enumerate() {
            s.push_str(&format!("\nW{}:", i));
            if w.dead {
                s.push_str("DEAD");
            }
            s.push_str(&w.idle_fp);
            if let Some(now) = w.mid_step {
                s.push_str(&format!("|MID@{}{:?}", now, w.consumed));
            }
            s.push_str("\nC:");
            for c in self.cmdq[i].borrow().iter() {
                s.push_str(&super::canon::cmd(c));
                s.push(';');
            }
            s.push_str("\nV:");
            for e in self.evtq[i].borrow().iter() {
                s.push_str(&super::canon::evt(e));
                s.push(';');
            }
        }
        let b = self.backend.borrow();
        s.push_str(&format!(
            "\nB:{}|{:?}|{:?}|d{}|r{}",
            b.next_resource,
            b.open,
            b.files,
            b.deferred.len(),
            b.ready.len()
        ));
        s
    }

    /// Finish: stop all coroutines (returning their stacks to the pool).
    pub fn shutdown(mut self) {
        for slot in self.workers.drain(..) {
            let mut co = slot.co;
            if slot.mid_step.is_some() {
                // A step is suspended at a `try_recv`: let it finish with `Empty`.
                loop {
                    match co.resume(WIn::Reply(None)) {
                        CoroutineResult::Yield(WOut::Ask) => continue,
                        _ => break,
                    }
                }
            }
            if !co.done() {
                let _ = co.resume(WIn::Stop);
            }
            if co.done() {
                let stack = co.into_stack();
                STACK_POOL.with(|p| p.borrow_mut().push(stack));
            }
        }
        quiver_core::executor::verif::set_quantum(None);
        let _ = quiver_core::executor::verif::select_log_take();
    }
}
