//! A long-lived REPL session over the real `Repl` + `Environment` + workers, driven on the
//! default schedule of the simulator (deterministic, single-threaded).

use super::explore::alternatives;
use super::system::{Act, Config, System};
use quiver_compiler::PackageResolver;
use quiver_core::value::Value;
use quiver_environment::{Repl, ReplError, RequestResult};
use std::cell::RefCell;
use std::collections::{BTreeMap, HashMap};

pub struct Session {
    pub sys: System,
    pub repl: Repl<super::system::E>,
}

#[derive(Clone, Debug, PartialEq, Eq)]
pub enum Eval {
    /// The line produced a value: (canonical rendering, repository's own formatting).
    Value(String, String),
    /// The line contained no executable code (type definitions only).
    NoCode,
    ParseError(String),
    CompileError(String),
    RuntimeError(String),
    /// Environment-level failure, hang, panic — never expected.
    Broken(String),
}

impl Session {
    pub fn new(workers: usize, modules: HashMap<Vec<String>, String>) -> Result<Session, String> {
        let cfg = Config {
            workers,
            quantum: 1000,
            request_early: true,
            io: false,
            defer_effects: false,
        };
        let mut sys = System::boot(cfg, None)?;
        sys.fingerprints = false;
        let resolver = Box::new(PackageResolver::memory(modules));
        let repl = Repl::new(&mut sys.env, resolver, super::system::builtin_registry(false))
            .map_err(|e| format!("Repl::new: {}", e))?;
        let mut s = Session { sys, repl };
        s.settle()?;
        Ok(s)
    }

    /// Run the default schedule until nothing is enabled.
    pub fn settle(&mut self) -> Result<(), String> {
        let mut guard = 0usize;
        loop {
            let alts = alternatives(&self.sys);
            let Some(a) = alts.first() else { break };
            let act = a.act.clone();
            if matches!(act, Act::Clock(_)) {
                // sessions never wait on timers
            }
            self.sys.apply(&act)?;
            if !self.sys.errors.is_empty() {
                return Err(self.sys.errors.join("; "));
            }
            guard += 1;
            if guard > 2_000_000 {
                return Err("session did not settle within 2e6 actions".into());
            }
        }
        Ok(())
    }

    fn process_types(&mut self) -> Result<HashMap<usize, (quiver_core::types::Type, usize)>, String> {
        let id = self
            .sys
            .env
            .request_process_types()
            .map_err(|e| format!("request_process_types: {:?}", e))?;
        self.settle()?;
        match self.sys.env.poll_request(id) {
            Ok(Some(RequestResult::ProcessTypes(t))) => Ok(t),
            other => Err(format!("process types: {:?}", other.map(|o| o.is_some()))),
        }
    }

    pub fn render(&self, v: &Value, heap: &[Vec<u8>]) -> String {
        let refs = RefCell::new(BTreeMap::new());
        let program = self.sys.env.get_program();
        let r = crate::render::Renderer {
            types: program,
            heap,
            constants: program.get_constants(),
            pid_names: None,
            ref_names: Some(&refs),
        };
        r.render(v)
    }

    pub fn eval(&mut self, source: &str) -> Eval {
        let types = match self.process_types() {
            Ok(t) => t,
            Err(e) => return Eval::Broken(e),
        };
        let r = std::panic::catch_unwind(std::panic::AssertUnwindSafe(|| {
            self.repl.evaluate(&mut self.sys.env, source, types)
        }));
        let r = match r {
            Ok(r) => r,
            Err(_) => return Eval::Broken(format!("panic in Repl::evaluate: {}", super::system::take_panic())),
        };
        match r {
            Err(ReplError::Parser(e)) => Eval::ParseError(format!("{}", e)),
            Err(ReplError::Compiler(e)) => Eval::CompileError(format!("{:?}", e)),
            Err(ReplError::Runtime(e)) => Eval::RuntimeError(format!("{:?}", e)),
            Err(ReplError::Environment(e)) => Eval::Broken(format!("{:?}", e)),
            Ok(None) => Eval::NoCode,
            Ok(Some(id)) => {
                if let Err(e) = self.settle() {
                    return Eval::Broken(e);
                }
                match self.sys.env.poll_request(id) {
                    Ok(Some(RequestResult::Result(Ok((v, heap)), _))) => {
                        let own = self.sys.env.format_value(&v, &heap);
                        Eval::Value(self.render(&v, &heap), own)
                    }
                    Ok(Some(RequestResult::Result(Err(e), _))) => Eval::RuntimeError(format!("{:?}", e)),
                    Ok(Some(_)) => Eval::Broken("unexpected request result".into()),
                    Ok(None) => Eval::Broken("line did not produce a result (hang)".into()),
                    Err(e) => Eval::Broken(format!("{:?}", e)),
                }
            }
        }
    }

    /// Value of a bound variable (canonical rendering), via `Repl::request_variable`.
    pub fn variable(&mut self, name: &str) -> Result<String, String> {
        let id = self
            .repl
            .request_variable(&mut self.sys.env, name)
            .map_err(|e| format!("{:?}", e))?;
        self.settle()?;
        match self.sys.env.poll_request(id) {
            Ok(Some(RequestResult::Locals(mut l))) if l.len() == 1 => {
                let (v, heap) = l.remove(0);
                Ok(self.render(&v, &heap))
            }
            other => Err(format!("request_variable: {:?}", other.map(|o| o.is_some()))),
        }
    }

    pub fn variables(&self) -> Vec<(String, String)> {
        self.repl.get_variables()
    }

    /// What the CLI does after a runtime error: a fresh `Repl` on the same, used `Environment`
    /// (the old REPL process and everything merged so far stay behind).
    pub fn restart_repl(&mut self) -> Result<(), String> {
        let resolver = Box::new(PackageResolver::memory(HashMap::new()));
        self.repl = Repl::new(&mut self.sys.env, resolver, super::system::builtin_registry(false))
            .map_err(|e| format!("Repl::new: {}", e))?;
        self.settle()
    }

    pub fn close(self) {
        self.sys.shutdown();
    }
}
