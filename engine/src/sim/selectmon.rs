//! M-select: conformance of every `handle_select` entry with the documented select semantics,
//! judged by a host-side reference on the snapshot the monitor hook took (DESIGN.md §4.6).

use super::system::System;
use quiver_core::executor::verif::{PortableValue, SelectOutcome, SelectRecord, SelectSnapshot};
use quiver_core::process::ProcessId;
use quiver_core::types::Type;
use quiver_core::value::Value;
use std::collections::{BTreeMap, BTreeSet};

#[derive(Default)]
pub struct SelectMonitor {
    /// next unread index of `sys.select_log`
    pub cursor: usize,
    /// first entry time of the select currently in flight, per process
    first_entry: BTreeMap<ProcessId, u64>,
    pub judged: u64,
    pub abstained: u64,
}

#[derive(Debug, Clone, PartialEq)]
enum Src {
    Timeout(i128),
    Process(ProcessId),
    /// (accepted message classes, filter)
    Recv(BTreeSet<String>, Filter),
    Unknown,
}

#[derive(Debug, Clone, PartialEq)]
enum Filter {
    TypeOnly,
    /// accepts integers equal to k
    EqInt(i128),
    Unknown,
}

fn classes_of(sys: &System, type_id: usize, depth: usize) -> Option<BTreeSet<String>> {
    let program = sys.env.get_program();
    let ty = program.get_types().get(type_id)?;
    let mut out = BTreeSet::new();
    match ty {
        Type::Integer => {
            out.insert("int".to_string());
        }
        Type::Binary => {
            out.insert("bin".to_string());
        }
        Type::Tuple(id) => {
            let info = program.get_tuples().get(*id)?;
            out.insert(format!("tuple:{}:{}", info.name.clone().unwrap_or_default(), info.fields.len()));
        }
        Type::Union(vs) if depth < 4 => {
            for v in vs {
                out.extend(classes_of(sys, *v, depth + 1)?);
            }
        }
        _ => return None,
    }
    Some(out)
}

fn class_of_value(sys: &System, v: &Value) -> Option<String> {
    let program = sys.env.get_program();
    match v {
        Value::Integer(_) => Some("int".to_string()),
        Value::Binary(_) => Some("bin".to_string()),
        Value::Tuple(id, fields) => {
            let info = program.get_tuples().get(*id)?;
            Some(format!("tuple:{}:{}", info.name.clone().unwrap_or_default(), fields.len()))
        }
        _ => None,
    }
}

fn int_of(v: &Value) -> Option<i128> {
    use num_traits::ToPrimitive;
    match v {
        Value::Integer(i) => i.to_i128(),
        _ => None,
    }
}

fn classify(sys: &System, snap: &SelectSnapshot) -> Vec<Src> {
    let program = sys.env.get_program();
    snap.sources
        .iter()
        .enumerate()
        .map(|(i, (v, _))| match v {
            Value::Integer(_) => int_of(v).map(Src::Timeout).unwrap_or(Src::Unknown),
            Value::Process(p, _) => Src::Process(*p),
            Value::Function(idx, caps) => {
                let Some(f) = program.get_functions().get(*idx) else {
                    return Src::Unknown;
                };
                let Some(Type::Callable { parameter, .. }) = program.get_types().get(f.type_id) else {
                    return Src::Unknown;
                };
                let Some(classes) = classes_of(sys, *parameter, 0) else {
                    return Src::Unknown;
                };
                let filter = match snap.source_type_only.get(i).copied().flatten() {
                    Some(true) => Filter::TypeOnly,
                    _ => match caps.as_slice() {
                        [c] => int_of(c).map(Filter::EqInt).unwrap_or(Filter::Unknown),
                        _ => Filter::Unknown,
                    },
                };
                Src::Recv(classes, filter)
            }
            _ => Src::Unknown,
        })
        .collect()
}

fn render(sys: &System, pv: &PortableValue) -> String {
    let refs = std::cell::RefCell::new(BTreeMap::new());
    super::render_value(sys, &pv.0, &pv.1, &refs)
}

#[derive(Debug)]
enum Expect {
    /// a source is ready and the implementation can complete at this entry: (source index,
    /// rendered value, index of the mailbox message that must be removed)
    Complete(usize, String, Option<usize>),
    /// a higher-priority filter source has an acceptable message whose verdict is not in yet: the
    /// select must not complete (with anything) nor park at this entry
    MustCallFilter(usize),
    NothingReady,
    Abstain(String),
}

fn reference(sys: &System, rec: &SelectRecord) -> Expect {
    let b = &rec.before;
    let sources = classify(sys, b);
    if sources.iter().any(|s| *s == Src::Unknown) {
        return Expect::Abstain("unknown source kind".into());
    }
    // the verdict of a filter call that just returned sits on top of the stack
    let pending = b.receiving.as_ref().map(|(ridx, msg)| {
        let truthy = b.stack_top.as_ref().map(|(v, _)| !v.is_nil()).unwrap_or(false);
        (*ridx, msg.clone(), truthy)
    });
    let start = b.start_time.unwrap_or(rec.now);
    let mut ridx = 0usize;
    for (i, s) in sources.iter().enumerate() {
        match s {
            Src::Timeout(ms) => {
                let elapsed = rec.now.saturating_sub(start) as i128;
                if elapsed >= (*ms).max(0) {
                    return Expect::Complete(i, "[]".to_string(), None);
                }
            }
            Src::Process(p) => {
                if let Some((_, Some(v))) = b.awaiting.iter().find(|(k, _)| k == p) {
                    return Expect::Complete(i, render(sys, v), None);
                }
            }
            Src::Recv(classes, filter) => {
                let my = ridx;
                ridx += 1;
                for (k, m) in b.mailbox.iter().enumerate() {
                    let Some(class) = class_of_value(sys, &m.0) else {
                        return Expect::Abstain("unclassifiable message".into());
                    };
                    if !classes.contains(&class) {
                        continue;
                    }
                    let accepts = match filter {
                        Filter::TypeOnly => true,
                        Filter::EqInt(x) => int_of(&m.0) == Some(*x),
                        Filter::Unknown => return Expect::Abstain("unknown filter".into()),
                    };
                    if !accepts {
                        continue;
                    }
                    // earliest acceptable message of this source
                    if *filter == Filter::TypeOnly {
                        return Expect::Complete(i, render(sys, m), Some(k));
                    }
                    if let Some((pr, pm, truthy)) = &pending {
                        let cursor = b.cursors.get(my).copied().unwrap_or(usize::MAX);
                        if *pr == my && cursor == k {
                            if render(sys, pm) != render(sys, m) {
                                return Expect::Abstain("held message differs from mailbox slot".into());
                            }
                            if !*truthy {
                                return Expect::Abstain(
                                    "host filter model and actual verdict disagree".into(),
                                );
                            }
                            return Expect::Complete(i, render(sys, m), Some(k));
                        }
                    }
                    return Expect::MustCallFilter(i);
                }
            }
            Src::Unknown => unreachable!(),
        }
    }
    Expect::NothingReady
}

fn mailbox_render(sys: &System, s: &SelectSnapshot) -> Vec<String> {
    s.mailbox.iter().map(|m| render(sys, m)).collect()
}

impl SelectMonitor {
    pub fn check(&mut self, sys: &System) -> Vec<(String, String)> {
        let mut out = vec![];
        while self.cursor < sys.select_log.len() {
            let rec = &sys.select_log[self.cursor];
            self.cursor += 1;
            if !rec.before.has_state {
                // initialisation entry: the select starts waiting now
                self.first_entry.insert(rec.pid, rec.now);
                // an empty select / immediate init has nothing to judge
                if !matches!(rec.outcome, SelectOutcome::Error(_)) && rec.after.has_state {
                    // mailbox must be untouched by initialisation
                    if mailbox_render(sys, &rec.before) != mailbox_render(sys, &rec.after) {
                        out.push((
                            "M-select-mailbox".to_string(),
                            format!("select initialisation in {} changed the mailbox", sys.path_of(rec.pid)),
                        ));
                    }
                }
                continue;
            }
            let who = sys.path_of(rec.pid);
            let mb_before = mailbox_render(sys, &rec.before);
            let mb_after = mailbox_render(sys, &rec.after);
            let exp = reference(sys, rec);
            match (&rec.outcome, &exp) {
                (_, Expect::Abstain(_)) => {
                    self.abstained += 1;
                }
                (SelectOutcome::Error(_), _) => {
                    self.abstained += 1;
                }
                (SelectOutcome::Completed, Expect::Complete(i, value, removed)) => {
                    self.judged += 1;
                    let got = rec.after.stack_top.as_ref().map(|v| render(sys, v));
                    if got.as_deref() != Some(value.as_str()) {
                        out.push((
                            "M-select-value".to_string(),
                            format!(
                                "select in {} at t={} completed with {:?}, but the first ready source in written order is #{} which yields {} (mailbox {:?}, awaiting {:?})",
                                who, rec.now, got, i, value, mb_before,
                                rec.before.awaiting.iter().map(|(p, v)| (sys.path_of(*p), v.is_some())).collect::<Vec<_>>()
                            ),
                        ));
                        continue;
                    }
                    let mut want = mb_before.clone();
                    if let Some(k) = removed {
                        want.remove(*k);
                    }
                    if want != mb_after {
                        out.push((
                            "M-select-mailbox".to_string(),
                            format!(
                                "select in {} took source #{}: mailbox before {:?}, after {:?}, expected {:?} (messages not taken must stay in order)",
                                who, i, mb_before, mb_after, want
                            ),
                        ));
                        continue;
                    }
                    // timeout lower bound, measured from the select's first entry
                    let sources = classify(sys, &rec.before);
                    if let Some(Src::Timeout(ms)) = sources.get(*i) {
                        let first = self.first_entry.get(&rec.pid).copied().unwrap_or(rec.now);
                        if (rec.now.saturating_sub(first) as i128) < (*ms).max(0) {
                            out.push((
                                "M-select-timeout-early".to_string(),
                                format!(
                                    "select in {} timed out at t={} although it started waiting at t={} with a timeout of {} ms",
                                    who, rec.now, first, ms
                                ),
                            ));
                        }
                    }
                    self.first_entry.remove(&rec.pid);
                }
                (SelectOutcome::Completed, Expect::MustCallFilter(i)) => {
                    self.judged += 1;
                    out.push((
                        "M-select-priority".to_string(),
                        format!(
                            "select in {} at t={} completed with {:?} although higher-priority receive source #{} has an acceptable message in the mailbox {:?}",
                            who, rec.now, rec.after.stack_top.as_ref().map(|v| render(sys, v)), i, mb_before
                        ),
                    ));
                }
                (SelectOutcome::Completed, Expect::NothingReady) => {
                    self.judged += 1;
                    out.push((
                        "M-select-spurious".to_string(),
                        format!(
                            "select in {} at t={} completed with {:?} although no source is ready (mailbox {:?}, start_time {:?})",
                            who, rec.now, rec.after.stack_top.as_ref().map(|v| render(sys, v)), mb_before, rec.before.start_time
                        ),
                    ));
                }
                (SelectOutcome::Parked, Expect::Complete(i, value, _)) => {
                    self.judged += 1;
                    out.push((
                        "M-select-missed".to_string(),
                        format!(
                            "select in {} at t={} parked although source #{} is ready and would yield {} (mailbox {:?})",
                            who, rec.now, i, value, mb_before
                        ),
                    ));
                }
                (SelectOutcome::Parked, Expect::MustCallFilter(i)) => {
                    self.judged += 1;
                    out.push((
                        "M-select-missed".to_string(),
                        format!(
                            "select in {} at t={} parked although receive source #{} has an acceptable message in the mailbox {:?} (cursors {:?})",
                            who, rec.now, i, mb_before, rec.before.cursors
                        ),
                    ));
                }
                (SelectOutcome::Parked, Expect::NothingReady) => {
                    self.judged += 1;
                }
                _ => {
                    // FilterCalled / Awaiting / Other: intermediate entries
                    self.judged += 1;
                }
            }
            if !matches!(rec.outcome, SelectOutcome::Completed) && mb_before != mb_after {
                out.push((
                    "M-select-mailbox".to_string(),
                    format!(
                        "a non-completing select entry in {} changed the mailbox: {:?} -> {:?}",
                        who, mb_before, mb_after
                    ),
                ));
            }
        }
        out
    }
}
