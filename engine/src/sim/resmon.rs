//! I-own / I-close: resource ownership and close-exactly-once, judged from the instrumented
//! backend's log and a host-side ownership model that follows the three sentences of
//! docs/spec.md "Resource ownership" on the same event stream the environment consumes.

use super::system::{Act, BackendLog, System};
use quiver_core::effects::Effect;
use quiver_core::process::ProcessId;
use quiver_core::value::{ResourceId, Value};
use quiver_environment::Event;
use std::collections::{BTreeMap, BTreeSet};

#[derive(Default)]
pub struct ResourceMonitor {
    pub owner: BTreeMap<ResourceId, ProcessId>,
    pub closed: BTreeSet<ResourceId>,
    log_cursor: usize,
}

fn resources_in(v: &Value, out: &mut Vec<ResourceId>) {
    match v {
        Value::Resource(r, _) => out.push(*r),
        Value::Tuple(_, fs) | Value::Function(_, fs) => {
            for f in fs.iter() {
                resources_in(f, out);
            }
        }
        _ => {}
    }
}

impl ResourceMonitor {
    pub fn after(&mut self, sys: &mut System, act: &Act) -> Vec<(String, String)> {
        let mut out = vec![];
        let new_log: Vec<BackendLog> = {
            let b = sys.backend.borrow();
            let v = b.log[self.log_cursor..].to_vec();
            self.log_cursor = b.log.len();
            v
        };
        if !matches!(act, Act::Env(_)) {
            if !new_log.is_empty() {
                out.push((
                    "I-own".to_string(),
                    format!("the backend was called outside an environment step: {:?}", new_log),
                ));
            }
            return out;
        }
        // Host model: replay the consumed events in order and predict the backend calls.
        let mut predicted: Vec<(ProcessId, Option<ResourceId>)> = vec![];
        let mut next_pid = sys.last_env_next_pid;
        // The creator owns a new resource, whichever operation created it (an open, or an
        // operation on another resource such as accepting on a listener). A handle cannot be
        // created and passed on within one environment step (the creator has to receive it
        // first), so registering the creations ahead of the batch's transfers is exact.
        for l in &new_log {
            if let BackendLog::Created { pid, resource } = l {
                self.owner.insert(*resource, *pid);
            }
        }
        for evt in sys.last_env_input.clone() {
            match evt {
                Event::SpawnAction {
                    captures, argument, ..
                } => {
                    let mut rs = vec![];
                    for c in &captures {
                        resources_in(c, &mut rs);
                    }
                    resources_in(&argument, &mut rs);
                    for r in rs {
                        self.owner.insert(r, next_pid);
                    }
                    next_pid += 1;
                }
                Event::DeliverAction {
                    target, message, ..
                } => {
                    let mut rs = vec![];
                    resources_in(&message, &mut rs);
                    for r in rs {
                        self.owner.insert(r, target);
                    }
                }
                Event::EffectRequest { process_id, effect } => match effect.resource_id() {
                    Some(r) => {
                        // spec: only the owning process may operate on a resource
                        if self.owner.get(&r) == Some(&process_id) {
                            predicted.push((process_id, Some(r)));
                        } else if !self.owner.contains_key(&r) {
                            // unknown / already closed resource: the backend decides
                            predicted.push((process_id, Some(r)));
                        }
                    }
                    None => {
                        predicted.push((process_id, None));
                    }
                },
                _ => {}
            }
        }
        let actual: Vec<(ProcessId, Option<ResourceId>)> = new_log
            .iter()
            .filter_map(|l| match l {
                BackendLog::Execute { pid, resource, .. } => Some((*pid, *resource)),
                _ => None,
            })
            .collect();
        // A process is alive while it has no result, or while it is a sleeping session process
        // (persistent, successful result: it can be resumed and keeps what it owns).
        let results_now = if sys.workers.iter().all(|w| w.mid_step.is_none() && !w.dead) {
            let sleeping = super::sleeping_pids(sys);
            let mut results = super::process_results(sys);
            for p in sleeping {
                results.insert(p, None);
            }
            Some(results)
        } else {
            None
        };
        // (1) an operation by a process other than the (living) owner must not reach the backend
        for (pid, r) in &actual {
            let Some(r) = r else { continue };
            let Some(o) = self.owner.get(r) else { continue };
            if o == pid {
                continue;
            }
            let owner_alive = results_now
                .as_ref()
                .map(|res| res.get(o).map(|x| x.is_none()).unwrap_or(false))
                .unwrap_or(false);
            if owner_alive {
                out.push((
                    "I-own".to_string(),
                    format!(
                        "process {} operated on resource {} owned by the living process {}: the operation reached the backend",
                        sys.path_of(*pid),
                        r,
                        sys.path_of(*o)
                    ),
                ));
            }
        }
        // (2) the owner's own operations must reach the backend
        for (pid, r) in &predicted {
            if let Some(r) = r {
                if self.owner.get(r) == Some(pid) && !actual.contains(&(*pid, Some(*r))) {
                    out.push((
                        "I-own".to_string(),
                        format!(
                            "process {} owns resource {} but its operation did not reach the backend",
                            sys.path_of(*pid),
                            r
                        ),
                    ));
                }
            }
        }
        // closes
        let results = results_now;
        for l in &new_log {
            if let BackendLog::Close {
                resource,
                was_open,
                via_effect,
            } = l
            {
                if *via_effect {
                    if *was_open {
                        self.closed.insert(*resource);
                        // a closed resource is no longer subject to the ownership rule
                        self.owner.remove(resource);
                    }
                    continue;
                }
                if *was_open {
                    if !self.closed.insert(*resource) {
                        out.push((
                            "I-close".to_string(),
                            format!("resource {} was closed twice", resource),
                        ));
                    }
                    if let (Some(results), Some(o)) = (&results, self.owner.get(resource)) {
                        if results.get(o).map(|r| r.is_none()).unwrap_or(false) {
                            out.push((
                                "I-close".to_string(),
                                format!(
                                    "resource {} was closed by the runtime while its owner {} is still alive",
                                    resource,
                                    sys.path_of(*o)
                                ),
                            ));
                        }
                    }
                    self.owner.remove(resource);
                }
            }
        }
        out
    }

    /// At quiescence: every resource whose owner has terminated is closed.
    pub fn terminal(&mut self, sys: &mut System) -> Vec<(String, String)> {
        let mut out = vec![];
        let results = super::process_results(sys);
        let sleeping = super::sleeping_pids(sys);
        let open: Vec<ResourceId> = sys.backend.borrow().open.keys().copied().collect();
        for r in open {
            let Some(o) = self.owner.get(&r) else { continue };
            let terminated =
                results.get(o).map(|x| x.is_some()).unwrap_or(false) && !sleeping.contains(o);
            if terminated {
                out.push((
                    "I-close-missing".to_string(),
                    format!(
                        "resource {} is still open at quiescence although its owner {} has terminated",
                        r,
                        sys.path_of(*o)
                    ),
                ));
            }
        }
        // the environment's own ownership table must agree with the host model for open resources
        let envv = sys.env.verif_view();
        for (r, o) in &envv.resource_ownership {
            if let Some(h) = self.owner.get(r) {
                if h != o && sys.backend.borrow().open.contains_key(r) {
                    out.push((
                        "I-own".to_string(),
                        format!(
                            "environment records {} as owner of resource {}, the ownership rules say {}",
                            sys.path_of(*o),
                            r,
                            sys.path_of(*h)
                        ),
                    ));
                }
            }
        }
        out
    }
}
