//! C06, REPL part: heap accounting across REPL lines (local compaction, orphan release, alias
//! shadowing, rejected lines, binaries sent to / returned from processes spawned by earlier lines).
//!
//! Exhaustive search over line histories: every sequence of at most `depth` lines of `LINES`,
//! each evaluated in a real session (real Repl + Environment + workers on the simulator's default
//! schedule). After every line, on every worker: the refcount <=> reachability invariant and the
//! free-list invariants (`monitors::check_heap`), and after the last line of a history also
//! "no unreachable slot lingers unreclaimed". A host model of the bytes each binary variable must
//! hold is compared with what the session returns.

use super::session::{Eval, Session};
use crate::infra::{Budget, Violation};
use rayon::prelude::*;
use serde_json::{json, Value as J};
use std::collections::BTreeMap;

/// Lines chosen to interact through the heap and the REPL's keep-set: a non-constant heap binary
/// bound, rebound to a longer one / to a non-binary, aliased by a second variable and by a tuple,
/// captured by a closure, shadowed by a *type alias of the same name* on a definitions-only line,
/// used as a temporary, flowing as previous result, a rejected line, and a process that receives,
/// duplicates and returns a binary.
pub const LINES: &[&str] = &[
    /* 0 */ "b = [0xaa, 0xbb] __binary_concat__",
    /* 1 */ "b = [b, 0xcc] __binary_concat__",
    /* 2 */ "c = [b, b]",
    /* 3 */ "'b = 'int",
    /* 4 */ "b = 1",
    /* 5 */ "[b, 0x01] __binary_concat__",
    /* 6 */ "f = #'int { [b, b] __binary_concat__ }",
    /* 7 */ "~",
    /* 8 */ "x = [1,",
    /* 9 */ "p = @{ !'bin =m, [m, m] __binary_concat__ }",
    /* 10 */ "b p, !p",
    /* 11 */ "'c = 'bin",
    /* 12 */ "5",
];

#[derive(Default, Clone)]
pub struct Stats {
    pub histories: u64,
    pub lines_evaluated: u64,
    pub lines_with_value: u64,
    pub lines_rejected: u64,
    pub heap_checks: u64,
    pub value_comparisons: u64,
    pub capped: bool,
}

impl Stats {
    fn merge(&mut self, o: &Stats) {
        self.histories += o.histories;
        self.lines_evaluated += o.lines_evaluated;
        self.lines_with_value += o.lines_with_value;
        self.lines_rejected += o.lines_rejected;
        self.heap_checks += o.heap_checks;
        self.value_comparisons += o.value_comparisons;
        self.capped |= o.capped;
    }
}

/// Host model: what `b` holds (None = not a binary variable any more / undefined).
#[derive(Clone, Default)]
struct Model {
    b: Option<Vec<u8>>,
}

fn hex(b: &[u8]) -> String {
    let mut s = String::from("0x");
    for x in b {
        s.push_str(&format!("{:02x}", x));
    }
    s
}

/// Evaluate one history; returns the first problem (index of the line, class, detail).
fn run_history(workers: usize, hist: &[u8], st: &mut Stats) -> Result<Option<(usize, String, String)>, String> {
    let mut s = Session::new(workers, Default::default())?;
    let mut model = Model::default();
    let mut found = None;
    'lines: for (i, c) in hist.iter().enumerate() {
        let line = LINES[*c as usize];
        let r = s.eval(line);
        st.lines_evaluated += 1;
        let accepted = match &r {
            Eval::Value(..) => {
                st.lines_with_value += 1;
                true
            }
            Eval::NoCode => true,
            Eval::ParseError(_) | Eval::CompileError(_) => {
                st.lines_rejected += 1;
                false
            }
            Eval::RuntimeError(_) => true,
            Eval::Broken(m) => {
                found = Some((i, "broken".to_string(), m.clone()));
                break 'lines;
            }
        };
        // host model of `b`
        if accepted {
            match *c {
                0 => model.b = Some(vec![0xaa, 0xbb]),
                1 => {
                    if let Some(b) = &mut model.b {
                        b.push(0xcc);
                    }
                }
                3 | 4 => model.b = None,
                _ => {}
            }
        }
        for w in 0..workers {
            st.heap_checks += 1;
            if let Some((inv, p)) = super::monitors::check_heap(&mut s.sys, w).into_iter().next() {
                found = Some((i, inv, format!("worker {}: {}", w, p)));
                break 'lines;
            }
        }
        if let Some(b) = &model.b {
            st.value_comparisons += 1;
            match s.variable("b") {
                Ok(v) if v == hex(b) => {}
                Ok(v) => {
                    found = Some((i, "bytes".to_string(), format!("variable b reads {} but was built as {}", v, hex(b))));
                    break 'lines;
                }
                Err(e) => {
                    found = Some((i, "bytes".to_string(), format!("variable b cannot be read: {}", e)));
                    break 'lines;
                }
            }
            for w in 0..workers {
                st.heap_checks += 1;
                if let Some((inv, p)) = super::monitors::check_heap(&mut s.sys, w).into_iter().next() {
                    found = Some((i, inv, format!("worker {} after reading b: {}", w, p)));
                    break 'lines;
                }
            }
        }
    }
    if found.is_none() && !hist.is_empty() {
        if let Some((inv, p)) = super::monitors::check_heap_final(&mut s.sys).into_iter().next() {
            found = Some((hist.len() - 1, inv, p));
        }
    }
    s.close();
    st.histories += 1;
    Ok(found)
}

fn render_hist(h: &[u8]) -> String {
    h.iter().map(|c| LINES[*c as usize]).collect::<Vec<_>>().join(" ⏎ ")
}

/// Remove lines while the same class of problem is still reported (histories are enumerated
/// shortest-first, so this only matters for problems first seen at the cap).
fn shrink(workers: usize, hist: &[u8], class: &str) -> Vec<u8> {
    let mut cur = hist.to_vec();
    loop {
        let mut progressed = false;
        for i in 0..cur.len() {
            let mut cand = cur.clone();
            cand.remove(i);
            let mut st = Stats::default();
            if let Ok(Some((_, c, _))) = run_history(workers, &cand, &mut st) {
                if c == class {
                    cur = cand;
                    progressed = true;
                    break;
                }
            }
        }
        if !progressed {
            return cur;
        }
    }
}

pub fn run(depth: usize, worker_counts: &[usize], budget: &Budget) -> Result<(J, Vec<Violation>), String> {
    // all histories of length 1..=depth, split by first line for the thread pool
    let n = LINES.len() as u8;
    let mut jobs: Vec<(usize, u8)> = vec![];
    for w in worker_counts {
        for first in 0..n {
            jobs.push((*w, first));
        }
    }
    let results: Vec<Result<(Stats, Vec<(usize, Vec<u8>, String, String)>), String>> = jobs
        .par_iter()
        .map(|(w, first)| {
            let mut st = Stats::default();
            let mut fails: Vec<(usize, Vec<u8>, String, String)> = vec![];
            // iterative enumeration of all extensions of [first] up to depth, shortest first
            let mut level: Vec<Vec<u8>> = vec![vec![*first]];
            for _len in 1..=depth {
                let mut next = vec![];
                for h in &level {
                    if budget.exhausted() {
                        st.capped = true;
                        return Ok((st, fails));
                    }
                    match run_history(*w, h, &mut st)? {
                        Some((_, class, detail)) => {
                            // do not extend a failing history (every extension fails the same way)
                            if fails.len() < 6 {
                                fails.push((*w, h.clone(), class, detail));
                            }
                        }
                        None => {
                            for c in 0..n {
                                let mut e = h.clone();
                                e.push(c);
                                next.push(e);
                            }
                        }
                    }
                }
                level = next;
            }
            Ok((st, fails))
        })
        .collect();
    let mut st = Stats::default();
    let mut by_sig: BTreeMap<String, Violation> = BTreeMap::new();
    for r in results {
        let (s, fails) = r?;
        st.merge(&s);
        for (w, h, class, detail) in fails {
            let core = shrink(w, &h, &class);
            let sig = format!("repl|{}|{}", class, render_hist(&core));
            by_sig.entry(sig.clone()).or_insert_with(|| Violation {
                signature: sig,
                summary: format!(
                    "[REPL W{}] {} after line {:?} of history `{}`: {}",
                    w,
                    class,
                    h.last().map(|c| LINES[*c as usize]).unwrap_or(""),
                    render_hist(&h),
                    detail
                ),
                replay: json!({"engine": "repl-heap", "workers": w, "lines": core.iter().map(|c| LINES[*c as usize]).collect::<Vec<_>>(), "class": class}),
            });
        }
    }
    let cov = json!({
        "alphabet": LINES,
        "max_history_length": depth,
        "worker_counts": worker_counts,
        "histories": st.histories,
        "lines_evaluated": st.lines_evaluated,
        "lines_with_value": st.lines_with_value,
        "lines_rejected_by_parser_or_compiler": st.lines_rejected,
        "heap_checks": st.heap_checks,
        "byte_comparisons_of_b": st.value_comparisons,
        "exhaustive": !st.capped,
    });
    Ok((cov, by_sig.into_values().collect()))
}

pub fn replay(j: &J) -> Result<bool, String> {
    let workers = j["workers"].as_u64().unwrap_or(1) as usize;
    let lines: Vec<String> = j["lines"]
        .as_array()
        .ok_or("replay has no lines")?
        .iter()
        .filter_map(|l| l.as_str().map(String::from))
        .collect();
    let mut hist = vec![];
    for l in &lines {
        let Some(i) = LINES.iter().position(|x| x == l) else {
            return Err(format!("line {:?} is not in the alphabet any more", l));
        };
        hist.push(i as u8);
    }
    let mut verdicts = vec![];
    for _ in 0..2 {
        let mut st = Stats::default();
        verdicts.push(run_history(workers, &hist, &mut st)?);
    }
    if verdicts[0] != verdicts[1] {
        return Err(format!("two replays disagree: {:?}", verdicts));
    }
    match &verdicts[0] {
        Some((i, class, detail)) => {
            println!("  observed: {} after line {} ({:?}): {}", class, i, lines.get(*i), detail);
            Ok(true)
        }
        None => Ok(false),
    }
}
