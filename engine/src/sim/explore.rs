//! Schedule exploration over [`System`]: default schedule, deviation-bounded stateless DFS, and
//! explicit-state DFS with a fingerprint cache.

use super::system::{Act, Config, System};
use quiver_core::bytecode::Bytecode;
use std::collections::HashSet;

#[derive(Clone, Debug)]
pub struct Alt {
    pub act: Act,
    pub cost: u32,
}

/// All visibility vectors `v` with `v[i] <= lens[i]`.
fn vis_vectors(lens: &[usize]) -> Vec<Vec<usize>> {
    let mut out: Vec<Vec<usize>> = vec![vec![]];
    for &n in lens {
        let mut next = vec![];
        for p in &out {
            // full visibility first
            for v in (0..=n).rev() {
                let mut q = p.clone();
                q.push(v);
                next.push(q);
            }
        }
        out = next;
    }
    out
}

/// The enabled actions of `sys`, default (cost 0) first. An empty result means quiescence.
pub fn alternatives(sys: &System) -> Vec<Alt> {
    let w = sys.workers.len();
    let lens: Vec<usize> = sys.evtq.iter().map(|q| q.borrow().len()).collect();
    let env_on = sys.env_enabled();

    // ---- default action
    let mut default: Option<Act> = None;
    // 1. continue a suspended worker step (prefer the one that acted last)
    let mut mids: Vec<usize> = (0..w).filter(|i| sys.workers[*i].mid_step.is_some()).collect();
    if sys.last_component >= 1 {
        let lc = sys.last_component - 1;
        if let Some(pos) = mids.iter().position(|i| *i == lc) {
            mids.swap(0, pos);
        }
    }
    if let Some(&i) = mids.first() {
        default = Some(if sys.deliver_enabled(i) {
            Act::Deliver(i)
        } else {
            Act::Run(i)
        });
    }
    // 2. round-robin over components, starting after the one that acted last
    if default.is_none() {
        for k in 1..=(w + 1) {
            let c = (sys.last_component + k) % (w + 1);
            if c == 0 {
                if env_on {
                    default = Some(Act::Env(lens.clone()));
                    break;
                }
            } else {
                let i = c - 1;
                if sys.deliver_enabled(i) {
                    default = Some(Act::Deliver(i));
                    break;
                }
                if sys.run_enabled(i) {
                    default = Some(Act::Run(i));
                    break;
                }
            }
        }
    }
    let deferred = sys.backend.borrow().deferred.len();
    let expiries = sys.pending_expiries();
    if default.is_none() && sys.request_enabled() {
        default = Some(Act::Request);
    }
    if default.is_none() && deferred > 0 {
        default = Some(Act::Complete(0));
    }
    if default.is_none() && !expiries.is_empty() {
        default = Some(Act::Clock(expiries[0]));
    }
    let Some(default) = default else {
        return vec![];
    };

    // ---- alternatives
    let mut out = vec![Alt {
        act: default.clone(),
        cost: 0,
    }];
    let env_is_default = matches!(default, Act::Env(_));
    if env_on {
        for v in vis_vectors(&lens) {
            let truncated = v.iter().zip(&lens).filter(|(a, b)| a < b).count() as u32;
            let sees_nothing = v.iter().all(|x| *x == 0) && sys.backend.borrow().ready.is_empty();
            if sees_nothing {
                continue;
            }
            let act = Act::Env(v);
            if act == default {
                continue;
            }
            out.push(Alt {
                act,
                cost: truncated + if env_is_default { 0 } else { 1 },
            });
        }
    }
    for i in 0..w {
        if sys.deliver_enabled(i) && default != Act::Deliver(i) {
            out.push(Alt {
                act: Act::Deliver(i),
                cost: 1,
            });
        }
        if sys.run_enabled(i) && default != Act::Run(i) {
            out.push(Alt {
                act: Act::Run(i),
                cost: 1,
            });
        }
    }
    for t in &expiries {
        let act = Act::Clock(*t);
        if act != default {
            out.push(Alt { act, cost: 1 });
        }
    }
    // one tick before the earliest expiry (catches early firing)
    if let Some(t) = expiries.first() {
        if *t >= 1 && *t - 1 > sys.clock {
            out.push(Alt {
                act: Act::Clock(*t - 1),
                cost: 1,
            });
        }
    }
    for k in 0..deferred {
        let act = Act::Complete(k);
        if act != default {
            out.push(Alt { act, cost: 1 });
        }
    }
    out
}

/// What a monitor sees. Monitors may inspect (and, through `with_worker`, query) the system but
/// must not change its behaviour.
pub trait Monitor {
    /// Called after every action. Return violations as (invariant id, detail).
    fn after(&mut self, sys: &mut System, act: &Act) -> Vec<(String, String)>;
    /// Called at quiescence (no action enabled) or when the horizon was reached.
    fn terminal(&mut self, sys: &mut System, horizon_hit: bool) -> Vec<(String, String)>;
}

#[derive(Clone, Debug)]
pub struct Finding {
    pub invariant: String,
    pub detail: String,
    pub config: Config,
    pub actions: Vec<String>,
}

#[derive(Default, Clone, Debug)]
pub struct Stats {
    pub runs: u64,
    pub actions: u64,
    pub max_depth: usize,
    pub horizon_hits: u64,
    pub states: u64,
    pub transitions: u64,
    pub state_cap_hit: bool,
}

pub struct RunResult {
    pub choices: Vec<usize>,
    /// cost of each alternative at each point (index 0 is the default, cost 0)
    pub costs: Vec<Vec<u32>>,
    pub findings: Vec<(String, String)>,
    pub labels: Vec<String>,
    pub sys: Option<System>,
}

pub const HORIZON: usize = 20_000;

/// Execute one run: follow `prefix` (indices into `alternatives`), then the default schedule.
pub fn run_once(
    cfg: &Config,
    bytecode: &Bytecode,
    prefix: &[usize],
    monitor: &mut dyn Monitor,
    keep_system: bool,
) -> Result<RunResult, String> {
    run_once_sink(cfg, bytecode, prefix, monitor, keep_system, None)
}

pub fn run_once_sink(
    cfg: &Config,
    bytecode: &Bytecode,
    prefix: &[usize],
    monitor: &mut dyn Monitor,
    keep_system: bool,
    mut sink: Option<&mut HashSet<u128>>,
) -> Result<RunResult, String> {
    let mut sys = System::new(cfg.clone(), bytecode.clone())?;
    let mut choices = vec![];
    let mut costs = vec![];
    let mut labels = vec![];
    let mut findings = vec![];
    let mut horizon_hit = false;
    let mut stopped = false;
    loop {
        let alts = alternatives(&sys);
        if alts.is_empty() {
            break;
        }
        let i = choices.len();
        if i >= HORIZON {
            horizon_hit = true;
            break;
        }
        let c = if i < prefix.len() { prefix[i] } else { 0 };
        if c >= alts.len() {
            sys.shutdown();
            return Err(format!(
                "replay divergence at point {}: choice {} of {} alternatives",
                i,
                c,
                alts.len()
            ));
        }
        let act = alts[c].act.clone();
        labels.push(act.label());
        if let Err(e) = sys.apply(&act) {
            sys.shutdown();
            return Err(e);
        }
        choices.push(c);
        costs.push(alts.iter().map(|a| a.cost).collect());
        if i >= prefix.len() {
            if let Some(sink) = sink.as_mut() {
                sink.insert(sys.state_hash());
            }
        }
        let f = monitor.after(&mut sys, &act);
        let stop = !f.is_empty();
        findings.extend(f);
        if stop || !sys.errors.is_empty() {
            // a violation or a crashed component ends the run
            stopped = true;
            break;
        }
    }
    if !stopped {
        findings.extend(monitor.terminal(&mut sys, horizon_hit));
    } else if findings.is_empty() {
        findings.extend(super::monitors::check_noerr(&sys));
    }
    let sys = if keep_system {
        Some(sys)
    } else {
        sys.shutdown();
        None
    };
    Ok(RunResult {
        choices,
        costs,
        findings,
        labels,
        sys,
    })
}

/// Replay a recorded action-label list exactly; any label that is not enabled is a hard error.
pub fn run_labels(
    cfg: &Config,
    bytecode: &Bytecode,
    labels: &[String],
    monitor: &mut dyn Monitor,
    narrate: bool,
) -> Result<(Vec<(String, String)>, System), String> {
    let mut sys = System::new(cfg.clone(), bytecode.clone())?;
    let mut findings = vec![];
    for (i, l) in labels.iter().enumerate() {
        let alts = alternatives(&sys);
        let Some(a) = alts.iter().find(|a| &a.act.label() == l) else {
            let have: Vec<String> = alts.iter().map(|a| a.act.label()).collect();
            sys.shutdown();
            return Err(format!(
                "replay divergence at step {}: '{}' is not enabled (enabled: {:?})",
                i, l, have
            ));
        };
        let act = a.act.clone();
        if narrate {
            println!("  step {:3}: {}", i, l);
        }
        let seen_records = sys.select_log.len();
        sys.apply(&act)?;
        if narrate {
            for r in &sys.select_log[seen_records..] {
                println!(
                    "            select in {} at t={}: sources={} mailbox={:?} cursors={:?} receiving={:?} -> {:?}; after: mailbox={:?} cursors={:?} receiving={:?} stack_top={:?}",
                    sys.path_of(r.pid),
                    r.now,
                    r.before.sources.len(),
                    r.before.mailbox.iter().map(|m| &m.1).collect::<Vec<_>>(),
                    r.before.cursors,
                    r.before.receiving.as_ref().map(|(i, m)| (i, &m.1)),
                    r.outcome,
                    r.after.mailbox.iter().map(|m| &m.1).collect::<Vec<_>>(),
                    r.after.cursors,
                    r.after.receiving.as_ref().map(|(i, m)| (i, &m.1)),
                    r.after.stack_top.as_ref().map(|m| (&m.0, &m.1)),
                );
            }
        }
        findings.extend(monitor.after(&mut sys, &act));
        if !findings.is_empty() || !sys.errors.is_empty() {
            break;
        }
    }
    let quiescent = alternatives(&sys).is_empty();
    if findings.is_empty() && sys.errors.is_empty() && quiescent {
        findings.extend(monitor.terminal(&mut sys, false));
    } else if findings.is_empty() {
        findings.extend(super::monitors::check_noerr(&sys));
    }
    Ok((findings, sys))
}

/// Deviation-bounded stateless exploration: every run with at most `bound` deviations from the
/// default schedule. `make_monitor` builds a fresh monitor per run.
pub fn explore_bounded(
    cfg: &Config,
    bytecode: &Bytecode,
    bound: u32,
    make_monitor: &mut dyn FnMut() -> Box<dyn Monitor>,
    stats: &mut Stats,
    findings: &mut Vec<Finding>,
    max_findings: usize,
    on_terminal: &mut dyn FnMut(&mut System),
    budget: &crate::infra::Budget,
) -> Result<bool, String> {
    // explicit stack of prefixes with their accumulated cost
    let mut stack: Vec<(Vec<usize>, u32)> = vec![(vec![], 0)];
    let mut complete = true;
    while let Some((prefix, cost0)) = stack.pop() {
        if budget.exhausted() || findings.len() >= max_findings {
            complete = false;
            break;
        }
        let mut mon = make_monitor();
        let mut r = run_once(cfg, bytecode, &prefix, mon.as_mut(), true)?;
        stats.runs += 1;
        stats.actions += r.choices.len() as u64;
        stats.max_depth = stats.max_depth.max(r.choices.len());
        let mut sys = r.sys.take().unwrap();
        if r.choices.len() >= HORIZON {
            stats.horizon_hits += 1;
        }
        if r.findings.is_empty() {
            on_terminal(&mut sys);
        }
        sys.shutdown();
        for (inv, detail) in r.findings.drain(..) {
            findings.push(Finding {
                invariant: inv,
                detail,
                config: cfg.clone(),
                actions: r.labels.clone(),
            });
        }
        // children: deviate at any point at or after the end of the prefix
        let mut acc = cost0;
        // cost accumulated along the prefix is cost0; points after the prefix are default (0)
        for i in prefix.len()..r.choices.len() {
            for (alt, c) in r.costs[i].iter().enumerate().skip(1) {
                if acc + c <= bound {
                    let mut p = r.choices[..i].to_vec();
                    p.push(alt);
                    stack.push((p, acc + c));
                }
            }
            acc += 0;
        }
    }
    Ok(complete)
}

/// Explicit-state exploration: all action sequences, pruned by the canonical fingerprint.
/// States are re-reached by replaying their action list on a fresh system.
pub fn explore_states(
    cfg: &Config,
    bytecode: &Bytecode,
    make_monitor: &mut dyn FnMut() -> Box<dyn Monitor>,
    stats: &mut Stats,
    findings: &mut Vec<Finding>,
    max_findings: usize,
    state_cap: usize,
    on_terminal: &mut dyn FnMut(&mut System),
    budget: &crate::infra::Budget,
) -> Result<bool, String> {
    let mut seen: HashSet<u128> = HashSet::new();
    // paths whose *last* action still has to be taken (and its target state examined)
    let mut stack: Vec<Vec<Act>> = vec![vec![]];
    let mut complete = true;
    while let Some(path) = stack.pop() {
        if budget.exhausted() || findings.len() >= max_findings {
            complete = false;
            break;
        }
        if seen.len() >= state_cap {
            stats.state_cap_hit = true;
            complete = false;
            break;
        }
        let mut mon = make_monitor();
        let mut sys = System::new(cfg.clone(), bytecode.clone())?;
        let mut cur: Vec<Act> = vec![];
        // re-reach the parent state (already examined when it was first visited)
        let silent = path.len().saturating_sub(1);
        for a in &path[..silent] {
            sys.apply(a)?;
            cur.push(a.clone());
            // monitors may keep history (ownership model, select first-entry times): let them
            // observe the prefix; its findings were reported when these states were first visited
            let _ = mon.after(&mut sys, a);
        }
        let mut next: Option<Act> = path.last().cloned();
        if path.is_empty() {
            seen.insert(sys.state_hash());
        }
        loop {
            if let Some(act) = next.take() {
                sys.apply(&act)?;
                cur.push(act.clone());
                stats.transitions += 1;
                stats.max_depth = stats.max_depth.max(cur.len());
                let mut f = mon.after(&mut sys, &act);
                if !f.is_empty() || !sys.errors.is_empty() {
                    if f.is_empty() {
                        f.extend(super::monitors::check_noerr(&sys));
                    }
                    for (inv, detail) in f {
                        findings.push(Finding {
                            invariant: inv,
                            detail,
                            config: cfg.clone(),
                            actions: cur.iter().map(|a| a.label()).collect(),
                        });
                    }
                    break;
                }
                if !seen.insert(sys.state_hash()) {
                    break; // state already examined
                }
            }
            let alts = alternatives(&sys);
            if alts.is_empty() {
                let f = mon.terminal(&mut sys, false);
                if f.is_empty() {
                    // the terminal monitor's poke continuation applied further actions: the
                    // schedule that reached this terminal state is `cur`
                    sys.history.truncate(cur.len());
                    on_terminal(&mut sys);
                }
                for (inv, detail) in f {
                    findings.push(Finding {
                        invariant: inv,
                        detail,
                        config: cfg.clone(),
                        actions: cur.iter().map(|a| a.label()).collect(),
                    });
                }
                stats.runs += 1;
                break;
            }
            if cur.len() >= HORIZON {
                stats.horizon_hits += 1;
                break;
            }
            for alt in alts.iter().skip(1) {
                let mut p = cur.clone();
                p.push(alt.act.clone());
                stack.push(p);
            }
            next = Some(alts[0].act.clone());
        }
        sys.shutdown();
    }
    stats.states = seen.len() as u64;
    Ok(complete)
}

pub fn hash128(s: &str) -> u128 {
    // two independent 64-bit FNV-style hashes
    let mut a: u64 = 0xcbf29ce484222325;
    let mut b: u64 = 0x84222325cbf29ce4;
    for byte in s.bytes() {
        a ^= byte as u64;
        a = a.wrapping_mul(0x100000001b3);
        b = b.wrapping_add(byte as u64).wrapping_mul(0x9E3779B97F4A7C15);
        b ^= b >> 29;
    }
    ((a as u128) << 64) | b as u128
}
