//! Invariants and monitors evaluated on the live system (DESIGN.md §4.6).

use super::explore::Monitor;
use super::system::{Act, System};
use quiver_core::process::ProcessId;
use quiver_environment::{Command, Event};
use std::collections::BTreeMap;

/// I-noerr: no panic, no `Err` from `Worker::step` / `Environment::step`.
pub fn check_noerr(sys: &System) -> Vec<(String, String)> {
    sys.errors
        .iter()
        .map(|e| ("I-noerr".to_string(), e.clone()))
        .collect()
}

/// I-heap on worker `i` (idle): refcount ⇔ reachability, no reachable freed slot, free list
/// consistent with freed flags.
pub fn check_heap(sys: &mut System, i: usize) -> Vec<(String, String)> {
    if sys.workers[i].dead || sys.workers[i].mid_step.is_some() {
        return vec![];
    }
    let problems: Vec<String> = sys.with_worker(i, |w| {
        let ex = w.verif_executor();
        let mut out = vec![];
        if let Err(e) = ex.check_refcounts() {
            out.push(format!("check_refcounts: {}", e));
        }
        let hv = ex.verif_heap_view();
        let reachable = ex.reachable_heap_indices();
        for idx in &reachable {
            if hv.freed.get(*idx).copied().unwrap_or(true) {
                out.push(format!("reachable slot {} is freed or out of range", idx));
            }
        }
        let mut free_sorted = hv.free.clone();
        free_sorted.sort_unstable();
        let mut dedup = free_sorted.clone();
        dedup.dedup();
        if dedup.len() != free_sorted.len() {
            out.push(format!("free list has duplicates: {:?}", hv.free));
        }
        let freed_set: Vec<usize> = hv
            .freed
            .iter()
            .enumerate()
            .filter(|(_, f)| **f)
            .map(|(i, _)| i)
            .collect();
        if freed_set != dedup {
            out.push(format!(
                "free list {:?} differs from freed flags {:?}",
                dedup, freed_set
            ));
        }
        for idx in &freed_set {
            if hv.refcounts[*idx] != 0 {
                out.push(format!("freed slot {} has refcount {}", idx, hv.refcounts[*idx]));
            }
        }
        out
    });
    problems
        .into_iter()
        .map(|p| ("I-heap".to_string(), format!("worker {}: {}", i, p)))
        .collect()
}

/// At quiescence: nothing unreachable lingers outside the free list (after one flushing slice per
/// worker so that deferred frees have had their safe point).
pub fn check_heap_final(sys: &mut System) -> Vec<(String, String)> {
    let mut out = vec![];
    for i in 0..sys.workers.len() {
        if sys.workers[i].dead || sys.workers[i].mid_step.is_some() {
            continue;
        }
        let problems: Vec<String> = sys.with_worker(i, |w| {
            // one flushing step: with an empty run queue this only reclaims pending frees
            let now = 0;
            let _ = w.verif_executor_mut().step(1, now);
            let ex = w.verif_executor();
            let hv = ex.verif_heap_view();
            let reachable = ex.reachable_heap_indices();
            let mut out = vec![];
            for idx in 0..hv.lens.len() {
                if !reachable.contains(&idx) && !hv.freed[idx] {
                    out.push(format!(
                        "slot {} ({} bytes, refcount {}) is unreachable but was never reclaimed",
                        idx, hv.lens[idx], hv.refcounts[idx]
                    ));
                }
            }
            out
        });
        out.extend(
            problems
                .into_iter()
                .map(|p| ("I-heap-leak".to_string(), format!("worker {}: {}", i, p))),
        );
    }
    out
}

#[derive(Clone, Debug, Default)]
pub struct ParkedInfo {
    pub spawning: Vec<ProcessId>,
    pub selecting: Vec<ProcessId>,
    pub effecting: Vec<ProcessId>,
    pub queue: Vec<ProcessId>,
}

pub fn parked(sys: &mut System) -> Vec<ParkedInfo> {
    let mut out = vec![];
    for i in 0..sys.workers.len() {
        if sys.workers[i].dead || sys.workers[i].mid_step.is_some() {
            out.push(ParkedInfo::default());
            continue;
        }
        let info = sys.with_worker(i, |w| {
            let v = w.verif_executor().verif_sched_view();
            ParkedInfo {
                spawning: v.spawning,
                selecting: v.selecting,
                effecting: v.effecting,
                queue: v.queue,
            }
        });
        out.push(info);
    }
    out
}

/// I-quiescent (first half): at quiescence the entry result has been delivered (if requested),
/// nobody is still waiting for a spawn notification or an effect completion, and every queue is
/// empty.
pub fn check_quiescent(sys: &mut System, expect_entry_result: bool) -> Vec<(String, String)> {
    let mut out = vec![];
    if expect_entry_result && sys.entry_result.is_none() {
        out.push((
            "I-quiescent".to_string(),
            "system is idle but the entry process's result was never delivered (hang)".to_string(),
        ));
    }
    for (i, p) in parked(sys).iter().enumerate() {
        for pid in &p.spawning {
            out.push((
                "I-quiescent".to_string(),
                format!(
                    "system is idle but process {} on worker {} still waits for its spawn notification",
                    sys.path_of(*pid),
                    i
                ),
            ));
        }
        for pid in &p.effecting {
            out.push((
                "I-quiescent".to_string(),
                format!(
                    "system is idle but process {} on worker {} still waits for an effect completion",
                    sys.path_of(*pid),
                    i
                ),
            ));
        }
    }
    out
}

/// The poke test: every parked selecting process is re-queued through the public
/// `Executor::mark_active` and the default schedule continued. With all queues empty every
/// notification has been processed, so a select that completes only when poked is a lost wake-up.
/// Returns the paths of processes whose select completed (or that otherwise changed state).
pub fn poke_test(sys: &mut System) -> Vec<(String, String)> {
    let before = super::process_results(sys);
    // snapshot: (pid -> (stack len, mailbox len, frames, counter)) of each selecting process that
    // has no result yet (a process failed through an awaited failure lingers in `selecting`)
    let snap = selecting_snapshot(sys);
    let mut parked_before = parked(sys);
    for p in parked_before.iter_mut() {
        p.selecting.retain(|pid| snap.contains_key(pid));
    }
    let any: usize = parked_before.iter().map(|p| p.selecting.len()).sum();
    if any == 0 {
        return vec![];
    }
    for i in 0..sys.workers.len() {
        if sys.workers[i].dead || sys.workers[i].mid_step.is_some() {
            continue;
        }
        let pids = parked_before[i].selecting.clone();
        sys.with_worker(i, move |w| {
            for pid in pids {
                w.verif_executor_mut().mark_active(pid);
            }
        });
        // the worker now has runnable processes
        sys.workers[i].has_runnable = true;
    }
    // continue on the default schedule until quiescence again
    let mut guard = 0;
    loop {
        let alts = super::explore::alternatives(sys);
        if alts.is_empty() || guard > 5_000 {
            break;
        }
        // never advance the clock during the poke continuation
        let Some(a) = alts.iter().find(|a| !matches!(a.act, Act::Clock(_))) else {
            break;
        };
        let act = a.act.clone();
        if sys.apply(&act).is_err() {
            break;
        }
        guard += 1;
    }
    let after = super::process_results(sys);
    let snap_after = selecting_snapshot(sys);
    let mut out = vec![];
    for (pid, s) in &snap {
        let changed = match snap_after.get(pid) {
            Some(t) => t != s,
            None => true,
        };
        let result_changed = before.get(pid).map(|r| r.is_some()) != after.get(pid).map(|r| r.is_some());
        if changed || result_changed {
            out.push((
                "I-lostwake".to_string(),
                format!(
                    "process {} was parked in a select at quiescence although a source was ready: \
                     re-queueing it (no new message, completion or clock tick) let it proceed \
                     (before {:?}, after {:?})",
                    sys.path_of(*pid),
                    s,
                    snap_after.get(pid)
                ),
            ));
        }
    }
    out
}

type SelSnap = (usize, usize, usize, Vec<(usize, usize)>, bool);

fn selecting_snapshot(sys: &mut System) -> BTreeMap<ProcessId, SelSnap> {
    let mut out = BTreeMap::new();
    for i in 0..sys.workers.len() {
        if sys.workers[i].dead || sys.workers[i].mid_step.is_some() {
            continue;
        }
        let part: Vec<(ProcessId, SelSnap)> = sys.with_worker(i, |w| {
            let ex = w.verif_executor();
            let v = ex.verif_sched_view();
            v.selecting
                .iter()
                .filter_map(|pid| {
                    let p = ex.get_process(*pid)?;
                    if p.result.is_some() {
                        return None;
                    }
                    Some((
                        *pid,
                        (
                            p.stack.len(),
                            p.mailbox.len(),
                            p.locals.len(),
                            p.frames.iter().map(|f| (f.function_index, f.counter)).collect(),
                            p.select_state.is_some(),
                        ),
                    ))
                })
                .collect()
        });
        out.extend(part);
    }
    out
}

// ------------------------------------------------------------------------------------------
// Message conservation (I-conserve, messages half) — state based.

/// Every message in flight (event queues + command queues) and every mailbox entry, rendered.
/// Scenario programs send globally distinct messages, so a duplicate rendering of the same
/// message for the same target is a double delivery.
pub fn check_no_duplicate_messages(sys: &mut System) -> Vec<(String, String)> {
    let mut seen: BTreeMap<(ProcessId, String), usize> = BTreeMap::new();
    let refs = std::cell::RefCell::new(BTreeMap::new());
    for q in &sys.evtq {
        for e in q.borrow().iter() {
            if let Event::DeliverAction {
                target,
                message,
                heap,
            } = e
            {
                let r = super::render_value(sys, message, heap, &refs);
                *seen.entry((*target, r)).or_insert(0) += 1;
            }
        }
    }
    for q in &sys.cmdq {
        for c in q.borrow().iter() {
            if let Command::DeliverMessage {
                target,
                message,
                heap,
            } = c
            {
                let r = super::render_value(sys, message, heap, &refs);
                *seen.entry((*target, r)).or_insert(0) += 1;
            }
        }
    }
    for i in 0..sys.workers.len() {
        if sys.workers[i].dead || sys.workers[i].mid_step.is_some() {
            continue;
        }
        let boxes: Vec<(ProcessId, Vec<(quiver_core::value::Value, Vec<Vec<u8>>)>)> =
            sys.with_worker(i, |w| {
                let ex = w.verif_executor();
                ex.verif_sched_view()
                    .pids
                    .iter()
                    .map(|pid| {
                        let p = ex.get_process(*pid).unwrap();
                        (
                            *pid,
                            p.mailbox
                                .iter()
                                .map(|m| ex.extract_heap_data(m).unwrap_or((m.clone(), vec![])))
                                .collect(),
                        )
                    })
                    .collect()
            });
        for (pid, msgs) in boxes {
            for (m, heap) in msgs {
                let r = super::render_value(sys, &m, &heap, &refs);
                *seen.entry((pid, r)).or_insert(0) += 1;
            }
        }
    }
    seen.into_iter()
        .filter(|(_, n)| *n > 1)
        .map(|((pid, msg), n)| {
            (
                "I-conserve".to_string(),
                format!(
                    "message {} for process {} exists {} times (queues + mailbox): delivered more than once",
                    msg,
                    sys.path_of(pid),
                    n
                ),
            )
        })
        .collect()
}

/// The standard monitor: I-noerr after every action, optional I-heap after every worker action,
/// quiescence + poke test + optional heap-leak check at the end.
pub struct StdMonitor {
    pub heap: bool,
    pub conserve: bool,
    pub poke: bool,
    pub expect_entry_result: bool,
    pub extra_terminal: Option<Box<dyn FnMut(&mut System) -> Vec<(String, String)>>>,
    pub extra_after: Option<Box<dyn FnMut(&mut System, &Act) -> Vec<(String, String)>>>,
}

impl Default for StdMonitor {
    fn default() -> Self {
        StdMonitor {
            heap: false,
            conserve: false,
            poke: true,
            expect_entry_result: true,
            extra_terminal: None,
            extra_after: None,
        }
    }
}

impl Monitor for StdMonitor {
    fn after(&mut self, sys: &mut System, act: &Act) -> Vec<(String, String)> {
        let mut out = check_noerr(sys);
        if !out.is_empty() {
            return out;
        }
        if self.heap {
            if let Act::Run(i) | Act::Deliver(i) = act {
                out.extend(check_heap(sys, *i));
            }
        }
        if self.conserve && matches!(act, Act::Env(_) | Act::Run(_)) {
            out.extend(check_no_duplicate_messages(sys));
        }
        if self.conserve {
            out.extend(check_completion_conservation(sys));
        }
        if let Some(f) = self.extra_after.as_mut() {
            out.extend(f(sys, act));
        }
        out
    }

    fn terminal(&mut self, sys: &mut System, horizon_hit: bool) -> Vec<(String, String)> {
        let mut out = check_noerr(sys);
        if !out.is_empty() {
            return out;
        }
        if horizon_hit {
            out.push((
                "I-horizon".to_string(),
                format!(
                    "run did not reach quiescence within {} actions (livelock candidate)",
                    super::explore::HORIZON
                ),
            ));
            return out;
        }
        out.extend(check_quiescent(sys, self.expect_entry_result));
        if let Some(f) = self.extra_terminal.as_mut() {
            out.extend(f(sys));
        }
        if self.heap {
            out.extend(check_heap_final(sys));
        }
        if self.poke && out.is_empty() {
            out.extend(poke_test(sys));
        }
        out
    }
}

// ------------------------------------------------------------------------------------------
// Completion conservation (I-conserve, completions half) — state based.

/// For every process P parked in a select that has an awaited source T with no answer yet while
/// T already has a result: the information "T finished" must be somewhere on its way to P
/// (await request not yet answered, answer in a queue, answer held by the environment's merge
/// table, or P registered as awaiter on T's worker). Otherwise the completion was lost and P can
/// never be resumed by T.
pub fn check_completion_conservation(sys: &mut System) -> Vec<(String, String)> {
    use quiver_core::value::Value;
    if sys.workers.iter().any(|w| w.mid_step.is_some() || w.dead) {
        return vec![];
    }
    // gather
    struct Sel {
        pid: ProcessId,
        worker: usize,
        waiting_for: Vec<ProcessId>,
    }
    let mut sels: Vec<Sel> = vec![];
    let mut finished: BTreeMap<ProcessId, usize> = BTreeMap::new();
    let mut registered: Vec<(ProcessId, ProcessId)> = vec![]; // (target, awaiter)
    for i in 0..sys.workers.len() {
        let (s, f, r): (Vec<(ProcessId, Vec<ProcessId>)>, Vec<ProcessId>, Vec<(ProcessId, ProcessId)>) =
            sys.with_worker(i, |w| {
                let ex = w.verif_executor();
                let v = ex.verif_sched_view();
                let mut s = vec![];
                for pid in &v.selecting {
                    let Some(p) = ex.get_process(*pid) else { continue };
                    if p.result.is_some() {
                        // already finished (e.g. failed through an awaited failure); not blocked
                        continue;
                    }
                    let Some(st) = &p.select_state else { continue };
                    let mut waiting = vec![];
                    for src in &st.sources {
                        if let Value::Process(t, _) = src {
                            if matches!(p.awaiting.get(t), Some(None)) {
                                waiting.push(*t);
                            }
                        }
                    }
                    s.push((*pid, waiting));
                }
                let f = v
                    .pids
                    .iter()
                    .filter(|pid| ex.get_process(**pid).map(|p| p.result.is_some()).unwrap_or(false))
                    .copied()
                    .collect();
                let mut r = vec![];
                for (t, aws) in w.verif_view().awaiters_for_target {
                    for a in aws {
                        r.push((t, a));
                    }
                }
                (s, f, r)
            });
        for (pid, waiting_for) in s {
            sels.push(Sel {
                pid,
                worker: i,
                waiting_for,
            });
        }
        for pid in f {
            finished.insert(pid, i);
        }
        registered.extend(r);
    }
    let envv = sys.env.verif_view();
    let mut out = vec![];
    for sel in &sels {
        for t in &sel.waiting_for {
            let Some(&wt) = finished.get(t) else { continue };
            let p = sel.pid;
            let wp = sel.worker;
            let mut in_transit = false;
            for e in sys.evtq[wp].borrow().iter() {
                if let Event::AwaitAction { awaiter, targets } = e {
                    if *awaiter == p && targets.contains(t) {
                        in_transit = true;
                    }
                }
            }
            for c in sys.cmdq[wt].borrow().iter() {
                if let Command::QueryAndAwait { awaiter, targets } = c {
                    if *awaiter == p && targets.contains(t) {
                        in_transit = true;
                    }
                }
            }
            for e in sys.evtq[wt].borrow().iter() {
                if let Event::ProcessResults { awaiter, results } = e {
                    if *awaiter == p && matches!(results.get(t), Some(Some(_))) {
                        in_transit = true;
                    }
                }
            }
            for pa in &envv.pending_awaits {
                if pa.awaiter == p {
                    for (_, res) in &pa.responses {
                        if res.iter().any(|(k, v)| k == t && v.is_some()) {
                            in_transit = true;
                        }
                    }
                }
            }
            for c in sys.cmdq[wp].borrow().iter() {
                if let Command::UpdateAwaitResults { awaiter, results } = c {
                    if *awaiter == p && matches!(results.get(t), Some(Some(_))) {
                        in_transit = true;
                    }
                }
            }
            if registered.iter().any(|(tt, a)| tt == t && *a == p) {
                in_transit = true;
            }
            if !in_transit {
                out.push((
                    "I-conserve-completion".to_string(),
                    format!(
                        "process {} is parked in a select on {} which has finished, but the completion is nowhere in transit (not in any queue, not in the environment's await table, awaiter not registered on the target's worker): it was lost",
                        sys.path_of(p),
                        sys.path_of(*t)
                    ),
                ));
            }
        }
    }
    out
}
