//! Engine A — exhaustive schedule exploration of the real runtime.

pub mod canon;
pub mod checks;
pub mod driver;
pub mod explore;
pub mod monitors;
pub mod replheap;
pub mod resmon;
pub mod scenarios;
pub mod selectmon;
pub mod session;
pub mod system;

use crate::render::Renderer;
use quiver_core::process::ProcessId;
use quiver_core::value::Value;
use std::cell::RefCell;
use std::collections::BTreeMap;
use system::System;

pub type ProcResult = Option<Result<(Value, Vec<Vec<u8>>), quiver_core::error::Error>>;

/// Results of every process known to any worker (workers must be idle).
/// Persistent (session) processes that hold a successful result: they sleep and can be resumed,
/// so for resource ownership they are alive, not terminated.
pub fn sleeping_pids(sys: &mut System) -> std::collections::BTreeSet<ProcessId> {
    let mut out = std::collections::BTreeSet::new();
    for i in 0..sys.workers.len() {
        if sys.workers[i].dead || sys.workers[i].mid_step.is_some() {
            continue;
        }
        let part: Vec<ProcessId> = sys.with_worker(i, |w| {
            let ex = w.verif_executor();
            ex.verif_sched_view()
                .pids
                .iter()
                .filter(|pid| {
                    let p = ex.get_process(**pid).unwrap();
                    p.persistent && matches!(p.result, Some(Ok(_)))
                })
                .copied()
                .collect()
        });
        out.extend(part);
    }
    out
}

pub fn process_results(sys: &mut System) -> BTreeMap<ProcessId, ProcResult> {
    let mut out = BTreeMap::new();
    for i in 0..sys.workers.len() {
        if sys.workers[i].dead || sys.workers[i].mid_step.is_some() {
            continue;
        }
        let part: Vec<(ProcessId, ProcResult)> = sys.with_worker(i, |w| {
            let ex = w.verif_executor();
            ex.verif_sched_view()
                .pids
                .iter()
                .map(|pid| {
                    let p = ex.get_process(*pid).unwrap();
                    let r = match &p.result {
                        None => None,
                        Some(Err(e)) => Some(Err(e.clone())),
                        Some(Ok(v)) => Some(
                            ex.extract_heap_data(v)
                                .map_err(|e| quiver_core::error::Error::InvalidArgument(format!(
                                    "verif: extract_heap_data failed: {:?}",
                                    e
                                ))),
                        ),
                    };
                    (*pid, r)
                })
                .collect()
        });
        out.extend(part);
    }
    out
}

#[derive(Clone, Debug, PartialEq, Eq, PartialOrd, Ord, Hash)]
pub struct Outcome {
    /// Rendered entry result as delivered to the host (`None` if never delivered).
    pub entry: Option<String>,
    /// spawn path -> rendered result / error / "<running>"
    pub procs: BTreeMap<String, String>,
    pub errors: Vec<String>,
}

pub fn render_value(sys: &System, v: &Value, heap: &[Vec<u8>], refs: &RefCell<BTreeMap<u64, usize>>) -> String {
    let program = sys.env.get_program();
    let namer = |pid: usize| sys.path_of(pid);
    let r = Renderer {
        types: program,
        heap,
        constants: program.get_constants(),
        pid_names: Some(&namer),
        ref_names: Some(refs),
    };
    r.render(v)
}

fn render_result(
    sys: &System,
    r: &Result<(Value, Vec<Vec<u8>>), quiver_core::error::Error>,
    refs: &RefCell<BTreeMap<u64, usize>>,
) -> String {
    match r {
        Ok((v, heap)) => render_value(sys, v, heap, refs),
        Err(e) => format!("ERR {:?}", e),
    }
}

/// Canonical outcome of a finished run: pids are renamed to spawn paths, refs by first occurrence.
pub fn outcome(sys: &mut System) -> Outcome {
    let results = process_results(sys);
    let refs = RefCell::new(BTreeMap::new());
    let entry = sys
        .entry_result
        .clone()
        .map(|r| render_result(sys, &r, &refs));
    let mut procs = BTreeMap::new();
    let mut by_path: Vec<(String, ProcResult)> = results
        .into_iter()
        .map(|(pid, r)| (sys.path_of(pid), r))
        .collect();
    by_path.sort_by(|a, b| a.0.cmp(&b.0));
    for (path, r) in by_path {
        let s = match r {
            None => "<running>".to_string(),
            Some(r) => render_result(sys, &r, &refs),
        };
        procs.insert(path, s);
    }
    Outcome {
        entry,
        procs,
        errors: sys.errors.clone(),
    }
}
