//! Shared driver for the Engine-A properties: runs every (scenario × configuration) job over all
//! schedules within the deviation bound (and, where asked, over all reachable states), collects
//! counters, outcomes and findings, and turns them into a [`Report`].

use super::explore::{self, Finding, Monitor, Stats};
use super::scenarios::Scenario;
use super::system::{Config, System};
use super::{Outcome, outcome};
use crate::infra::{Budget, Report, Violation};
use crate::qcompile;
use rayon::prelude::*;
use serde_json::{Value as J, json};
use std::collections::{BTreeMap, BTreeSet, HashSet};
use std::sync::Mutex;

pub type MonitorFactory = dyn Fn(&Scenario, &Config) -> Box<dyn Monitor> + Sync;
/// Judges one terminal outcome against the scenario's reference outcome; returns
/// (invariant id, detail) for a violation.
pub type OutcomeOracle = dyn Fn(&Scenario, &Outcome, &Outcome) -> Option<(String, String)> + Sync;

pub struct Plan<'a> {
    pub property: &'static str,
    pub scenarios: Vec<Scenario>,
    pub configs: Box<dyn Fn(&Scenario) -> Vec<Config> + Sync + 'a>,
    pub bound: u32,
    /// Per-job override of the deviation bound (None = `bound`).
    pub bound_for: Option<Box<dyn Fn(&Scenario, &Config) -> u32 + Sync + 'a>>,
    /// Also run the unbounded explicit-state search on jobs for which this returns a state cap.
    pub explicit: Box<dyn Fn(&Scenario, &Config) -> Option<usize> + Sync + 'a>,
    pub monitor: &'a MonitorFactory,
    pub oracle: Option<&'a OutcomeOracle>,
    pub wall_budget_s: f64,
    pub assumptions: Vec<String>,
    pub explanation: String,
}

#[derive(Default)]
struct JobOut {
    stats: Stats,
    explicit_stats: Stats,
    findings: BTreeMap<String, (Finding, u32)>,
    outcomes: BTreeMap<Outcome, u64>,
    complete: bool,
    explicit_ran: bool,
    explicit_complete: bool,
    distinct_states: u64,
    sample: Option<(Vec<String>, Outcome)>,
    machinery_error: Option<String>,
}

pub fn reference_config(sc: &Scenario) -> Config {
    Config {
        workers: 1,
        quantum: 1000,
        request_early: true,
        io: sc.io,
        defer_effects: false,
    }
}

struct NullMonitor;
impl Monitor for NullMonitor {
    fn after(&mut self, _: &mut System, _: &super::system::Act) -> Vec<(String, String)> {
        vec![]
    }
    fn terminal(&mut self, _: &mut System, _: bool) -> Vec<(String, String)> {
        vec![]
    }
}

pub fn reference_outcome(sc: &Scenario, bytecode: &quiver_core::bytecode::Bytecode) -> Result<Outcome, String> {
    let cfg = reference_config(sc);
    let mut mon = NullMonitor;
    let r = explore::run_once(&cfg, bytecode, &[], &mut mon, true)?;
    let mut sys = r.sys.unwrap();
    let o = outcome(&mut sys);
    sys.shutdown();
    Ok(o)
}

pub fn compile_scenario(sc: &Scenario) -> Result<qcompile::CompiledUnit, String> {
    let builtins = if sc.io {
        qcompile::io_builtins()
    } else {
        qcompile::core_builtins()
    };
    qcompile::compile(&sc.source, &builtins)
        .map_err(|e| format!("scenario {} does not compile: {:?}\n{}", sc.id, e, sc.source))
}

struct Ctx<'a> {
    sc: &'a Scenario,
    cfg: &'a Config,
    bc: &'a quiver_core::bytecode::Bytecode,
    reference: &'a Outcome,
    monitor: &'a MonitorFactory,
    oracle: Option<&'a OutcomeOracle>,
    bound: u32,
    budget: &'a Budget,
}

struct Collector {
    stats: Stats,
    findings: Vec<Finding>,
    oracle_findings: Vec<(String, String, Vec<String>)>,
    outcomes: BTreeMap<Outcome, u64>,
    states: HashSet<u128>,
    complete: bool,
    err: Option<String>,
}

impl Collector {
    fn new() -> Self {
        Collector {
            stats: Stats::default(),
            findings: vec![],
            oracle_findings: vec![],
            outcomes: BTreeMap::new(),
            states: HashSet::new(),
            complete: true,
            err: None,
        }
    }
    fn merge(&mut self, o: Collector) {
        self.stats.runs += o.stats.runs;
        self.stats.actions += o.stats.actions;
        self.stats.max_depth = self.stats.max_depth.max(o.stats.max_depth);
        self.stats.horizon_hits += o.stats.horizon_hits;
        // keep at most one (the shortest) finding per invariant to bound memory
        for f in o.findings {
            match self.findings.iter_mut().find(|g| g.invariant == f.invariant) {
                Some(g) => {
                    if f.actions.len() < g.actions.len() {
                        *g = f;
                    }
                }
                None => self.findings.push(f),
            }
        }
        for f in o.oracle_findings {
            match self.oracle_findings.iter_mut().find(|g| g.0 == f.0) {
                Some(g) => {
                    if f.2.len() < g.2.len() {
                        *g = f;
                    }
                }
                None => self.oracle_findings.push(f),
            }
        }
        for (k, v) in o.outcomes {
            *self.outcomes.entry(k).or_insert(0) += v;
        }
        if self.states.len() < o.states.len() {
            let mut big = o.states;
            big.extend(self.states.drain());
            self.states = big;
        } else {
            self.states.extend(o.states);
        }
        self.complete &= o.complete;
        if self.err.is_none() {
            self.err = o.err;
        }
    }
}

/// Deviation-bounded stateless exploration of the subtree below `prefix`; the first `par_depth`
/// levels fan out over the rayon pool.
fn explore_subtree(ctx: &Ctx, prefix: Vec<usize>, cost0: u32, par_depth: u32) -> Collector {
    crate::sim::system::install_panic_recorder();
    let mut col = Collector::new();
    let mut stack: Vec<(Vec<usize>, u32)> = vec![(prefix, cost0)];
    let mut first = true;
    while let Some((prefix, cost0)) = stack.pop() {
        if ctx.budget.exhausted() {
            col.complete = false;
            break;
        }
        let mut mon = (ctx.monitor)(ctx.sc, ctx.cfg);
        let r = explore::run_once_sink(
            ctx.cfg,
            ctx.bc,
            &prefix,
            mon.as_mut(),
            true,
            Some(&mut col.states),
        );
        let mut r = match r {
            Ok(r) => r,
            Err(e) => {
                col.err = Some(e);
                break;
            }
        };
        col.stats.runs += 1;
        col.stats.actions += r.choices.len() as u64;
        col.stats.max_depth = col.stats.max_depth.max(r.choices.len());
        if r.choices.len() >= explore::HORIZON {
            col.stats.horizon_hits += 1;
        }
        let mut sys = r.sys.take().unwrap();
        if r.findings.is_empty() {
            let o = outcome(&mut sys);
            if let Some(oracle) = ctx.oracle {
                if let Some((inv, detail)) = oracle(ctx.sc, ctx.reference, &o) {
                    let f = (inv, detail, r.labels.clone());
                    match col.oracle_findings.iter_mut().find(|g| g.0 == f.0) {
                        Some(g) => {
                            if f.2.len() < g.2.len() {
                                *g = f;
                            }
                        }
                        None => col.oracle_findings.push(f),
                    }
                }
            }
            *col.outcomes.entry(o).or_insert(0) += 1;
        }
        sys.shutdown();
        for (inv, detail) in r.findings.drain(..) {
            let f = Finding {
                invariant: inv,
                detail,
                config: ctx.cfg.clone(),
                actions: r.labels.clone(),
            };
            match col.findings.iter_mut().find(|g| g.invariant == f.invariant) {
                Some(g) => {
                    if f.actions.len() < g.actions.len() {
                        *g = f;
                    }
                }
                None => col.findings.push(f),
            }
        }
        let mut children = vec![];
        for i in prefix.len()..r.choices.len() {
            for (alt, c) in r.costs[i].iter().enumerate().skip(1) {
                if cost0 + c <= ctx.bound {
                    let mut p = r.choices[..i].to_vec();
                    p.push(alt);
                    children.push((p, cost0 + c));
                }
            }
        }
        if first && par_depth > 0 && children.len() > 1 {
            let subs: Vec<Collector> = children
                .into_par_iter()
                .map(|(p, c)| explore_subtree(ctx, p, c, par_depth - 1))
                .collect();
            for s in subs {
                col.merge(s);
            }
        } else {
            stack.extend(children);
        }
        first = false;
    }
    col
}

pub fn run_plan(plan: Plan) -> Result<Report, String> {
    let budget = Budget::new(plan.wall_budget_s);
    // compile every scenario once; all schedules reuse the bytecode
    let mut compiled = vec![];
    for sc in &plan.scenarios {
        let unit = compile_scenario(sc)?;
        let bc = unit.bytecode();
        let reference = reference_outcome(sc, &bc)?;
        compiled.push((sc.clone(), bc, reference));
    }
    let mut jobs = vec![];
    for (idx, (sc, _, _)) in compiled.iter().enumerate() {
        for cfg in (plan.configs)(sc) {
            jobs.push((idx, cfg));
        }
    }
    // deterministic rotation of the job order by VERIF_SEED (only matters if a cap is hit)
    let seed = crate::infra::seed().unsigned_abs() as usize;
    if !jobs.is_empty() {
        let k = seed % jobs.len();
        jobs.rotate_left(k);
    }
    let skipped = Mutex::new(0usize);
    let outs: Vec<(usize, Config, JobOut)> = jobs
        .par_iter()
        .map(|(idx, cfg)| {
            let (sc, bc, reference) = &compiled[*idx];
            let mut out = JobOut::default();
            if budget.exhausted() {
                *skipped.lock().unwrap() += 1;
                return (*idx, cfg.clone(), out);
            }
            crate::sim::system::install_panic_recorder();
            let mut findings_raw: Vec<Finding> = vec![];
            let mut states: HashSet<u128> = HashSet::new();
            let mut outcomes: BTreeMap<Outcome, u64> = BTreeMap::new();
            let mut oracle_findings: Vec<(String, String, Vec<String>)> = vec![];
            {
                let ctx = Ctx {
                    sc,
                    cfg,
                    bc,
                    reference,
                    monitor: plan.monitor,
                    oracle: plan.oracle,
                    bound: plan.bound_for.as_ref().map(|f| f(sc, cfg)).unwrap_or(plan.bound),
                    budget: &budget,
                };
                let col = explore_subtree(&ctx, vec![], 0, 2);
                out.stats = col.stats;
                out.complete = col.complete;
                out.machinery_error = col.err;
                findings_raw.extend(col.findings);
                oracle_findings.extend(col.oracle_findings);
                states = col.states;
                outcomes = col.outcomes;
                let mut make = || (plan.monitor)(sc, cfg);
                let mut on_terminal = |sys: &mut System| {
                    let o = outcome(sys);
                    if let Some(oracle) = plan.oracle {
                        if let Some((inv, detail)) = oracle(sc, reference, &o) {
                            oracle_findings.push((
                                inv,
                                detail,
                                sys.history.iter().map(|a| a.label()).collect(),
                            ));
                        }
                    }
                    *outcomes.entry(o).or_insert(0) += 1;
                };
                if let Some(cap) = (plan.explicit)(sc, cfg) {
                    if out.machinery_error.is_none() && !budget.exhausted() {
                        out.explicit_ran = true;
                        match explore::explore_states(
                            cfg,
                            bc,
                            &mut make,
                            &mut out.explicit_stats,
                            &mut findings_raw,
                            usize::MAX,
                            cap,
                            &mut on_terminal,
                            &budget,
                        ) {
                            Ok(c) => out.explicit_complete = c,
                            Err(e) => out.machinery_error = Some(e),
                        }
                    }
                }
            }
            for (inv, detail, actions) in oracle_findings {
                findings_raw.push(Finding {
                    invariant: inv,
                    detail,
                    config: cfg.clone(),
                    actions,
                });
            }
            for f in findings_raw {
                let cost = f.actions.len() as u32;
                let e = out.findings.entry(f.invariant.clone());
                match e {
                    std::collections::btree_map::Entry::Vacant(v) => {
                        v.insert((f, cost));
                    }
                    std::collections::btree_map::Entry::Occupied(mut o) => {
                        if cost < o.get().1 {
                            o.insert((f, cost));
                        }
                    }
                }
            }
            out.distinct_states = states.len() as u64 + out.explicit_stats.states;
            out.sample = outcomes
                .iter()
                .next()
                .map(|(o, _)| (vec![], o.clone()));
            out.outcomes = outcomes;
            (*idx, cfg.clone(), out)
        })
        .collect();

    // ---- aggregate
    let mut violations = vec![];
    let mut runs = 0u64;
    let mut actions = 0u64;
    let mut states = 0u64;
    let mut ex_states = 0u64;
    let mut ex_transitions = 0u64;
    let mut ex_jobs = 0u64;
    let mut ex_complete = 0u64;
    let mut max_depth = 0usize;
    let mut horizon_hits = 0u64;
    let mut incomplete_jobs = 0u64;
    let mut per_scenario: BTreeMap<String, (u64, BTreeSet<Outcome>)> = BTreeMap::new();
    let mut samples: Vec<J> = vec![];
    let mut configs_seen: BTreeSet<String> = BTreeSet::new();
    for (idx, cfg, out) in &outs {
        let (sc, _, reference) = &compiled[*idx];
        if let Some(e) = &out.machinery_error {
            return Err(format!("scenario {} config {}: {}", sc.id, cfg.label(), e));
        }
        configs_seen.insert(cfg.label());
        runs += out.stats.runs + out.explicit_stats.runs;
        actions += out.stats.actions + out.explicit_stats.transitions;
        states += out.distinct_states;
        max_depth = max_depth.max(out.stats.max_depth).max(out.explicit_stats.max_depth);
        horizon_hits += out.stats.horizon_hits + out.explicit_stats.horizon_hits;
        if !out.complete {
            incomplete_jobs += 1;
        }
        if out.explicit_ran {
            ex_jobs += 1;
            ex_states += out.explicit_stats.states;
            ex_transitions += out.explicit_stats.transitions;
            if out.explicit_complete {
                ex_complete += 1;
            }
        }
        let e = per_scenario.entry(sc.id.clone()).or_default();
        e.0 += out.stats.runs + out.explicit_stats.runs;
        for o in out.outcomes.keys() {
            e.1.insert(o.clone());
        }
        for (inv, (f, _)) in &out.findings {
            violations.push(Violation {
                signature: format!("{}|{}", sc.id, inv),
                summary: format!(
                    "[{} {}] {} after {} actions: {}",
                    sc.id,
                    cfg.label(),
                    inv,
                    f.actions.len(),
                    f.detail
                ),
                replay: json!({
                    "engine": "sim",
                    "scenario": sc.id,
                    "family": sc.family,
                    "source": sc.source,
                    "io": sc.io,
                    "expect": sc.expect,
                    "config": {"workers": cfg.workers, "quantum": cfg.quantum,
                               "request_early": cfg.request_early, "defer_effects": cfg.defer_effects},
                    "actions": f.actions,
                    "invariant": inv,
                    "detail": f.detail,
                    "reference_outcome": format!("{:?}", reference),
                }),
            });
        }
        if samples.len() < 3 {
            if let Some((_, o)) = &out.sample {
                samples.push(json!({
                    "scenario": sc.id, "config": cfg.label(),
                    "source": sc.source,
                    "one_terminal_outcome": format!("{:?}", o),
                    "schedules_explored": out.stats.runs,
                }));
            }
        }
    }
    // keep only the cheapest witness per signature
    let mut best: BTreeMap<String, Violation> = BTreeMap::new();
    for v in violations {
        let len = v.replay["actions"].as_array().map(|a| a.len()).unwrap_or(0);
        match best.get(&v.signature) {
            Some(old)
                if old.replay["actions"].as_array().map(|a| a.len()).unwrap_or(0) <= len => {}
            _ => {
                best.insert(v.signature.clone(), v);
            }
        }
    }
    let skipped = *skipped.lock().unwrap();
    let outcome_table: BTreeMap<String, J> = per_scenario
        .iter()
        .map(|(k, (r, o))| (k.clone(), json!({"runs": r, "distinct_outcomes": o.len()})))
        .collect();
    let multi_outcome = per_scenario.values().filter(|(_, o)| o.len() > 1).count();
    let caps_hit = incomplete_jobs > 0 || skipped > 0 || (ex_jobs > ex_complete);
    let coverage = json!({
        "states": states.max(1),
        "transitions": actions.max(1),
        "traces_validated_against_impl": runs,
        "explanation": plan.explanation,
        "schedules": runs,
        "deviation_bound_completed": if incomplete_jobs == 0 && skipped == 0 { json!(plan.bound) } else { json!(null) },
        "deviation_bound_requested": plan.bound,
        "scenarios": plan.scenarios.len(),
        "jobs": outs.len(),
        "configs": configs_seen.iter().collect::<Vec<_>>(),
        "explicit_state": {"jobs": ex_jobs, "jobs_fully_explored": ex_complete, "states": ex_states, "transitions": ex_transitions},
        "max_depth": max_depth,
        "horizon_hits": horizon_hits,
        "scenarios_with_more_than_one_outcome": multi_outcome,
        "per_scenario": outcome_table,
        "caps_hit": {"any": caps_hit, "jobs_stopped_by_wall_budget": incomplete_jobs, "jobs_not_started": skipped,
                     "explicit_jobs_capped": ex_jobs - ex_complete, "wall_budget_s": plan.wall_budget_s},
        "exhaustive": !caps_hit,
        "samples": samples,
    });
    Ok(Report {
        property: plan.property,
        level: "model_checking",
        coverage,
        assumptions: plan.assumptions,
        violations: best.into_values().collect(),
    })
}

/// Replay one recorded Engine-A violation. Returns (still violates?, narration).
pub fn replay(
    replay: &J,
    monitor: &MonitorFactory,
    oracle: Option<&OutcomeOracle>,
    narrate: bool,
) -> Result<bool, String> {
    let sc = Scenario {
        id: replay["scenario"].as_str().unwrap_or("?").to_string(),
        family: super::scenarios::static_family(replay["family"].as_str().unwrap_or("")),
        source: replay["source"].as_str().ok_or("replay has no source")?.to_string(),
        confluent: true,
        io: replay["io"].as_bool().unwrap_or(false),
        expect: replay["expect"].as_str().map(|s| s.to_string()),
    };
    let c = &replay["config"];
    let cfg = Config {
        workers: c["workers"].as_u64().unwrap_or(2) as usize,
        quantum: c["quantum"].as_u64().unwrap_or(1000) as usize,
        request_early: c["request_early"].as_bool().unwrap_or(true),
        io: sc.io,
        defer_effects: c["defer_effects"].as_bool().unwrap_or(false),
    };
    let actions: Vec<String> = replay["actions"]
        .as_array()
        .ok_or("replay has no actions")?
        .iter()
        .filter_map(|a| a.as_str().map(|s| s.to_string()))
        .collect();
    let unit = compile_scenario(&sc)?;
    let bc = unit.bytecode();
    let reference = reference_outcome(&sc, &bc)?;
    let want_inv = replay["invariant"].as_str().unwrap_or("").to_string();
    let mut verdicts = vec![];
    for round in 0..3 {
        let mut mon = monitor(&sc, &cfg);
        let (mut findings, mut sys) =
            explore::run_labels(&cfg, &bc, &actions, mon.as_mut(), narrate && round == 0)?;
        if findings.is_empty() && explore::alternatives(&sys).is_empty() {
            let o = outcome(&mut sys);
            if let Some(oracle) = oracle {
                if let Some(f) = oracle(&sc, &reference, &o) {
                    findings.push(f);
                }
            }
            if narrate && round == 0 {
                println!("  terminal outcome: {:?}", o);
                println!("  reference outcome: {:?}", reference);
            }
        }
        sys.shutdown();
        verdicts.push(findings);
    }
    if verdicts[0] != verdicts[1] || verdicts[1] != verdicts[2] {
        return Err(format!(
            "three replays of the same schedule disagree (uncontrolled nondeterminism): {:?}",
            verdicts
        ));
    }
    if narrate {
        for (inv, d) in &verdicts[0] {
            println!("  observed: {}: {}", inv, d);
        }
        if verdicts[0].is_empty() {
            println!("  observed: no invariant violated");
        }
    }
    Ok(verdicts[0].iter().any(|(inv, _)| want_inv.is_empty() || *inv == want_inv))
}
