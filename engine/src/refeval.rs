//! Independent reference evaluator for the documented core sequential language (C02).
//!
//! A direct interpreter of the *un-normalised* AST produced by `quiver_compiler::parse` (no
//! compiler, no bytecode, no simplify), following docs/spec.md rule by rule (DESIGN.md Appendix A).
//! Wherever the spec does not determine the result the evaluator answers `Abstain` and the
//! program is counted but not judged.

use num_bigint::BigInt;
use num_traits::Zero;
use quiver_compiler::ast::{self, AccessPath, AccessSource, Match, Term};
use std::collections::HashMap;
use std::rc::Rc;

#[derive(Clone, Debug)]
pub enum V {
    Int(BigInt),
    Bin(Vec<u8>),
    Tup(Option<String>, Vec<(Option<String>, V)>),
    Fun(Rc<Clo>),
    Builtin(String),
    /// the (unspecified) input of a program's very first step
    Absent,
}

#[derive(Debug)]
pub struct Clo {
    pub site: usize,
    pub func: ast::Function,
    pub env: Env,
}

#[derive(Clone, Debug, Default)]
pub struct Env {
    pub scopes: Vec<HashMap<String, V>>,
    pub param: Option<V>,
    pub aliases: Rc<HashMap<String, ast::Type>>,
    /// the closure currently executing (for `^`)
    pub current: Option<Rc<Clo>>,
}

#[derive(Debug, Clone)]
pub enum Stop {
    Abstain(String),
    /// runtime error of a partial builtin (value-domain)
    Error(String),
    Budget,
    /// a tail call finished: unwind to the enclosing function call with this value
    Return(V),
}

pub type R<T> = Result<T, Stop>;

pub fn nil() -> V {
    V::Tup(None, vec![])
}
pub fn ok() -> V {
    V::Tup(Some("Ok".into()), vec![])
}
pub fn is_nil(v: &V) -> bool {
    matches!(v, V::Tup(None, f) if f.is_empty())
}

fn abstain<T>(why: &str) -> R<T> {
    Err(Stop::Abstain(why.to_string()))
}

pub fn render(v: &V) -> String {
    match v {
        V::Int(i) => i.to_string(),
        V::Bin(b) => format!("0x{}", b.iter().map(|x| format!("{:02x}", x)).collect::<String>()),
        V::Tup(name, fields) => {
            let inner: Vec<String> = fields
                .iter()
                .map(|(l, v)| match l {
                    Some(l) => format!("{}: {}", l, render(v)),
                    None => render(v),
                })
                .collect();
            match (name, inner.is_empty()) {
                (Some(n), true) => n.clone(),
                (Some(n), false) => format!("{}[{}]", n, inner.join(", ")),
                (None, _) => format!("[{}]", inner.join(", ")),
            }
        }
        V::Fun(_) => "#fn".to_string(),
        V::Builtin(_) => "#fn".to_string(),
        V::Absent => "<absent>".to_string(),
    }
}

pub fn equal(a: &V, b: &V) -> R<bool> {
    Ok(match (a, b) {
        (V::Int(x), V::Int(y)) => x == y,
        (V::Bin(x), V::Bin(y)) => x == y,
        (V::Tup(n1, f1), V::Tup(n2, f2)) => {
            if n1 != n2 || f1.len() != f2.len() {
                return Ok(false);
            }
            for ((l1, v1), (l2, v2)) in f1.iter().zip(f2.iter()) {
                if l1 != l2 || !equal(v1, v2)? {
                    return Ok(false);
                }
            }
            true
        }
        (V::Fun(_), V::Fun(_)) | (V::Builtin(_), V::Builtin(_)) => {
            return abstain("function equality");
        }
        (V::Absent, _) | (_, V::Absent) => return abstain("input of the program's first step"),
        _ => false,
    })
}

pub struct Interp {
    pub steps: usize,
    pub budget: usize,
    pub depth: usize,
    pub sites: usize,
    /// names of variables whose match failed mid-chain (use of their binders is unspecified)
    pub trace: Vec<&'static str>,
    /// Dynamic facts about this evaluation, used to decide whether a disagreement can be
    /// attributed to a known language-level defect: "midchain" (the verdict of an in-chain match
    /// was consumed by a later term or binding), "nil-accepted" (a nil value was matched by a
    /// pattern that accepts nil: bare binder, `_`, `[]`), "tail" (a tail call was executed),
    /// "generic" / "partial-param" (a generic function / a function with a partial-typed
    /// parameter was applied).
    pub events: std::collections::BTreeSet<&'static str>,
}

/// Is `v` a value of the written type `t`, as far as that can be told without resolving names
/// (primitives, tuples by name/labels/arity, unions of those)? `None` = cannot tell.
fn shallow_member(v: &V, t: &ast::Type) -> Option<bool> {
    match t {
        ast::Type::Primitive(ast::PrimitiveType::Int) => Some(matches!(v, V::Int(_))),
        ast::Type::Primitive(ast::PrimitiveType::Bin) => Some(matches!(v, V::Bin(_))),
        ast::Type::Tuple(tt) if !tt.is_partial => {
            let V::Tup(name, fields) = v else { return Some(false) };
            if *name != tt.name || fields.len() != tt.fields.len() {
                // a name may also be an alias reference: only a structural mismatch is certain
                return if tt.name == *name { Some(false) } else { None };
            }
            let mut all = Some(true);
            for ((label, fv), ft) in fields.iter().zip(tt.fields.iter()) {
                let ast::FieldType::Field { name, type_def } = ft else { return None };
                if name != label {
                    return None;
                }
                match shallow_member(fv, type_def) {
                    Some(true) => {}
                    Some(false) => return Some(false),
                    None => all = None,
                }
            }
            all
        }
        ast::Type::Union(u) => {
            let answers: Vec<Option<bool>> = u.types.iter().map(|t| shallow_member(v, t)).collect();
            if answers.iter().any(|a| *a == Some(true)) {
                Some(true)
            } else if answers.iter().all(|a| *a == Some(false)) {
                Some(false)
            } else {
                None
            }
        }
        _ => None,
    }
}

fn is_nil_type(t: &ast::Type) -> bool {
    matches!(t, ast::Type::Tuple(tt) if tt.name.is_none() && tt.fields.is_empty() && !tt.is_partial)
}

impl Interp {
    pub fn new(budget: usize) -> Self {
        Interp {
            steps: 0,
            budget,
            depth: 0,
            sites: 0,
            trace: vec![],
            events: Default::default(),
        }
    }

    fn tick(&mut self) -> R<()> {
        self.steps += 1;
        if self.steps > self.budget {
            Err(Stop::Budget)
        } else {
            Ok(())
        }
    }

    pub fn program(&mut self, p: &ast::Program) -> R<V> {
        let mut aliases = HashMap::new();
        let mut chains = vec![];
        for st in &p.statements {
            match st {
                ast::Statement::TypeAlias {
                    name,
                    type_parameters,
                    type_definition,
                    ..
                } => {
                    let Some(name) = name else {
                        return abstain("module default type");
                    };
                    if !type_parameters.is_empty() {
                        return abstain("parameterised alias");
                    }
                    aliases.insert(name.clone(), type_definition.clone());
                }
                ast::Statement::Expression(seq) => chains.extend(seq.chains.iter().cloned()),
            }
        }
        let mut env = Env {
            scopes: vec![HashMap::new()],
            param: Some(nil()),
            aliases: Rc::new(aliases),
            current: None,
        };
        // A1: the whole program is one sequence starting from nil (the entry function's parameter
        // in `quiv run` and the first REPL line)
        let seq = ast::Sequence { chains };
        match self.sequence(&seq, nil(), &mut env) {
            Err(Stop::Return(_)) => abstain("tail call at top level"),
            r => r,
        }
    }

    /// A1 sequence: thread, short-circuit on nil.
    fn sequence(&mut self, seq: &ast::Sequence, input: V, env: &mut Env) -> R<V> {
        let mut cur = input;
        for chain in &seq.chains {
            cur = self.chain(chain, cur, env)?;
            if matches!(cur, V::Absent) {
                return abstain("input of the program's first step");
            }
            if is_nil(&cur) {
                return Ok(nil());
            }
        }
        Ok(cur)
    }

    /// A2 chain: infallible pipe; `p = chain` matches afterwards and yields Ok / nil.
    fn chain(&mut self, chain: &ast::Chain, input: V, env: &mut Env) -> R<V> {
        self.tick()?;
        let mut cur = input;
        for (i, t) in chain.terms.iter().enumerate() {
            if matches!(t, Term::Match(_)) && (i + 1 < chain.terms.len() || chain.match_pattern.is_some()) {
                self.events.insert("midchain");
            }
            cur = self.term(t, cur, env)?;
        }
        if let Some(p) = &chain.match_pattern {
            return self.do_match(p, &cur, env);
        }
        Ok(cur)
    }

    fn do_match(&mut self, p: &Match, v: &V, env: &mut Env) -> R<V> {
        if matches!(v, V::Absent) {
            return abstain("input of the program's first step");
        }
        // A nil value reaching a pattern that accepts it; the nil test `=[]` counts whatever it
        // is applied to, because the compiler's wrong narrowing after it also mis-types the
        // branch guard that non-nil arguments are dispatched on.
        let nil_test = matches!(p, Match::Tuple(t) if t.name.is_none() && t.fields.is_empty());
        // `* = r` binds the names of every variant of r's static type; the ones the value's own
        // variant lacks hold nil (and are narrowed to non-nil like any other new binding).
        let star = matches!(p, Match::Star(_));
        if nil_test || star || (is_nil(v) && matches!(p, Match::Identifier(..) | Match::Placeholder)) {
            self.events.insert("nil-accepted");
        }
        let mut binds: Vec<(String, V)> = vec![];
        if self.pattern(p, v, env, &mut binds)? {
            for (k, val) in binds {
                env.scopes.last_mut().unwrap().insert(k, val);
            }
            Ok(ok())
        } else {
            // A8: a failed match binds nothing; use of its binders later in the same chain is
            // unspecified — mark them so that a lookup abstains
            let mut names = vec![];
            binder_names(p, &mut names);
            for n in names {
                env.scopes
                    .last_mut()
                    .unwrap()
                    .insert(format!("\u{0}failed:{}", n), nil());
            }
            Ok(nil())
        }
    }

    fn lookup(&self, name: &str, env: &Env) -> R<V> {
        for s in env.scopes.iter().rev() {
            if s.contains_key(&format!("\u{0}failed:{}", name)) && !s.contains_key(name) {
                return abstain("binder of a failed match used");
            }
            if let Some(v) = s.get(name) {
                if s.contains_key(&format!("\u{0}failed:{}", name)) {
                    return abstain("binder of a failed match shadows an earlier binding");
                }
                return Ok(v.clone());
            }
        }
        abstain("unbound variable (compile-time matter)")
    }

    fn access_path(&self, mut v: V, accessors: &[AccessPath]) -> R<V> {
        if matches!(v, V::Absent) {
            return abstain("input of the program's first step");
        }
        for a in accessors {
            let V::Tup(_, fields) = &v else {
                return abstain("field access on a non-tuple");
            };
            let next = match a {
                AccessPath::Index(i) => fields.get(*i).map(|(_, v)| v.clone()),
                AccessPath::Field(f) => fields
                    .iter()
                    .find(|(l, _)| l.as_deref() == Some(f.as_str()))
                    .map(|(_, v)| v.clone()),
            };
            match next {
                Some(n) => v = n,
                None => return abstain("missing field (compile-time matter)"),
            }
        }
        Ok(v)
    }

    fn is_nilary(&self, c: &Clo) -> bool {
        match &c.func.parameter_type {
            None => true,
            Some(t) => is_nil_type(t),
        }
    }

    fn contains_uninferred_fn(v: &V) -> bool {
        match v {
            V::Fun(c) => c.func.parameter_type.is_none(),
            V::Tup(_, fs) => fs.iter().any(|(_, v)| Self::contains_uninferred_fn(v)),
            _ => false,
        }
    }

    /// A3/A6: apply a callable to the flowing value.
    pub fn apply(&mut self, callee: &V, arg: V) -> R<V> {
        self.tick()?;
        match callee {
            V::Fun(c) => {
                if Self::contains_uninferred_fn(&arg) {
                    return abstain("un-annotated function literal in argument position (parameter inference)");
                }
                let arg = if self.is_nilary(c) { nil() } else { arg };
                if matches!(arg, V::Absent) {
                    return abstain("input of the program's first step");
                }
                self.call(c.clone(), arg)
            }
            V::Builtin(name) => {
                if matches!(arg, V::Absent) {
                    return abstain("input of the program's first step");
                }
                self.builtin(name, &arg)
            }
            _ => abstain("apply of a non-callable"),
        }
    }

    fn call(&mut self, c: Rc<Clo>, arg: V) -> R<V> {
        self.depth += 1;
        if self.depth > 200 {
            self.depth -= 1;
            return Err(Stop::Budget);
        }
        let r = self.call_inner(c, arg);
        self.depth -= 1;
        r
    }

    fn call_inner(&mut self, c: Rc<Clo>, arg: V) -> R<V> {
        let Some(body) = &c.func.body else {
            return Ok(arg); // `#T` is the identity
        };
        if !c.func.type_parameters.is_empty() {
            // generic functions behave like ordinary ones at run time
            self.events.insert("generic");
        }
        if matches!(&c.func.parameter_type, Some(ast::Type::Tuple(tt)) if tt.is_partial) {
            self.events.insert("partial-param");
        }
        let mut env = c.env.clone();
        env.param = Some(arg.clone());
        env.current = Some(c.clone());
        env.scopes.push(HashMap::new());
        match self.expression(body, arg, &mut env) {
            Err(Stop::Return(v)) => Ok(v),
            r => r,
        }
    }

    /// A5 block body: branches, condition-consequence.
    fn expression(&mut self, e: &ast::Expression, param: V, env: &mut Env) -> R<V> {
        for br in &e.branches {
            env.scopes.push(HashMap::new());
            let r = (|| -> R<Option<V>> {
                let c = self.sequence(&br.condition, param.clone(), env)?;
                if is_nil(&c) {
                    return Ok(None);
                }
                match &br.consequence {
                    Some(cons) => Ok(Some(self.sequence(cons, param.clone(), env)?)),
                    None => Ok(Some(c)),
                }
            })();
            env.scopes.pop();
            if let Some(v) = r? {
                return Ok(v);
            }
        }
        Ok(nil())
    }

    fn builtin(&mut self, name: &str, arg: &V) -> R<V> {
        let pair = |arg: &V| -> R<(V, V)> {
            match arg {
                V::Tup(_, f) if f.len() == 2 => Ok((f[0].1.clone(), f[1].1.clone())),
                _ => abstain("builtin argument shape"),
            }
        };
        match name {
            "integer_add" | "integer_subtract" | "integer_multiply" | "integer_divide" => {
                let (a, b) = pair(arg)?;
                let (V::Int(a), V::Int(b)) = (a, b) else {
                    return abstain("builtin argument type");
                };
                Ok(V::Int(match name {
                    "integer_add" => a + b,
                    "integer_subtract" => a - b,
                    "integer_multiply" => a * b,
                    _ => {
                        if b.is_zero() {
                            return Err(Stop::Error("InvalidArgument".into()));
                        }
                        // documented as truncating division (std/int.qv)
                        let (q, _) = num_integer::Integer::div_rem(&a, &b);
                        q
                    }
                }))
            }
            "binary_concat" => {
                let (a, b) = pair(arg)?;
                let (V::Bin(mut a), V::Bin(b)) = (a, b) else {
                    return abstain("builtin argument type");
                };
                a.extend(b);
                Ok(V::Bin(a))
            }
            _ => abstain("builtin outside the modelled set"),
        }
    }

    /// A3: what a term does with the flowing value.
    fn term(&mut self, t: &Term, flow: V, env: &mut Env) -> R<V> {
        self.tick()?;
        match t {
            Term::Literal(ast::Literal::Integer(i)) => Ok(V::Int(i.clone())),
            Term::Literal(ast::Literal::Binary(b)) => Ok(V::Bin(b.clone())),
            Term::Tuple(tu) => self.tuple(tu, flow, env),
            Term::String(_, segs) => {
                let mut out = vec![];
                for s in segs {
                    match s {
                        ast::StrSegment::Text(b) => out.extend(b.iter().copied()),
                        ast::StrSegment::Hole(e) => {
                            env.scopes.push(HashMap::new());
                            let r = self.expression(e, flow.clone(), env);
                            env.scopes.pop();
                            match r? {
                                V::Tup(Some(n), f) if n == "Str" && f.len() == 1 => match &f[0].1 {
                                    V::Bin(b) => out.extend(b.iter().copied()),
                                    _ => return abstain("string hole is not a Str"),
                                },
                                _ => return abstain("string hole is not a Str"),
                            }
                        }
                    }
                }
                Ok(V::Tup(Some("Str".into()), vec![(None, V::Bin(out))]))
            }
            Term::Match(p) => self.do_match(p, &flow, env),
            Term::Block(e) => {
                env.scopes.push(HashMap::new());
                let r = self.expression(e, flow, env);
                env.scopes.pop();
                r
            }
            Term::Function(f) => {
                self.sites += 1;
                Ok(V::Fun(Rc::new(Clo {
                    site: self.sites,
                    func: f.clone(),
                    env: env.clone(),
                })))
            }
            Term::Access(a) => self.access(a, flow, env, true),
            Term::Reference(a) => self.access(a, flow, env, false),
            Term::Spawn(..) | Term::Self_ | Term::Select(..) | Term::Process(_) => {
                abstain("process construct")
            }
        }
    }

    fn access(&mut self, a: &ast::Access, flow: V, env: &mut Env, call: bool) -> R<V> {
        match &a.source {
            None => {
                // `.f` / `.0`: field of the flowing value
                self.access_path(flow, &a.accessors)
            }
            Some(AccessSource::Ripple) => self.access_path(flow, &a.accessors),
            Some(AccessSource::Parameter) => {
                let p = env.param.clone().ok_or(Stop::Abstain("no parameter".into()))?;
                let w = self.access_path(p, &a.accessors)?;
                self.named_value(w, flow, call)
            }
            Some(AccessSource::Identifier(name)) => {
                let base = self.lookup(name, env)?;
                let w = self.access_path(base, &a.accessors)?;
                self.named_value(w, flow, call)
            }
            Some(AccessSource::Builtin(name)) => {
                let w = V::Builtin(name.clone());
                if call {
                    self.apply(&w, flow)
                } else {
                    Ok(w)
                }
            }
            Some(AccessSource::TailCall(target)) => {
                let callee = match target {
                    None => {
                        if !a.accessors.is_empty() {
                            return abstain("tail call with accessors on self");
                        }
                        match &env.current {
                            Some(c) => V::Fun(c.clone()),
                            None => return abstain("tail call outside a function"),
                        }
                    }
                    Some(name) => {
                        let base = self.lookup(name, env)?;
                        self.access_path(base, &a.accessors)?
                    }
                };
                if env.current.is_none() {
                    return abstain("tail call outside a function");
                }
                // "tail-arg-ok": a *self* tail call (for which `never` is the right type; `^g` should
                // have g's result type) whose argument certainly is of the written parameter type
                let arg_ok = target.is_none()
                    && match &callee {
                        V::Fun(c) => c.func.parameter_type.as_ref().and_then(|t| shallow_member(&flow, t)) == Some(true),
                        _ => false,
                    };
                self.events.insert(if arg_ok { "tail-arg-ok" } else { "tail" });
                let v = match &callee {
                    // `^` passes the flowing value as is (A6); a nilary target gets nil
                    V::Fun(_) => self.apply(&callee, flow)?,
                    _ => return abstain("tail call of a non-function"),
                };
                Err(Stop::Return(v))
            }
            Some(AccessSource::TailCallRipple) => {
                self.events.insert("tail");
                if env.current.is_none() {
                    return abstain("tail call outside a function");
                }
                let v = match &flow {
                    V::Fun(_) => self.apply(&flow, nil())?,
                    _ => return abstain("^~ of a non-function"),
                };
                Err(Stop::Return(v))
            }
            Some(AccessSource::Import(_)) => abstain("import"),
            Some(AccessSource::Self_) => abstain("process construct"),
        }
    }

    fn named_value(&mut self, w: V, flow: V, call: bool) -> R<V> {
        match (&w, call) {
            (V::Fun(_), true) | (V::Builtin(_), true) => self.apply(&w, flow),
            _ => Ok(w),
        }
    }

    /// A4 tuple construction.
    fn tuple(&mut self, tu: &ast::Tuple, flow: V, env: &mut Env) -> R<V> {
        let mut fields: Vec<(Option<String>, V)> = vec![];
        let mut inherit: Option<Option<String>> = None;
        for f in &tu.fields {
            match &f.value {
                ast::FieldValue::Chain(c) => {
                    let v = self.chain(c, flow.clone(), env)?;
                    match &f.name {
                        Some(n) => {
                            if let Some(slot) = fields.iter_mut().find(|(l, _)| l.as_deref() == Some(n.as_str())) {
                                slot.1 = v;
                            } else {
                                fields.push((Some(n.clone()), v));
                            }
                        }
                        None => fields.push((None, v)),
                    }
                }
                ast::FieldValue::Spread(src) => {
                    let sv = match src {
                        None if matches!(flow, V::Absent) => {
                            return abstain("input of the program's first step");
                        }
                        None => flow.clone(),
                        Some(name) => self.lookup(name, env)?,
                    };
                    let V::Tup(sname, sfields) = sv else {
                        return abstain("spread of a non-tuple");
                    };
                    if inherit.is_none() {
                        inherit = Some(sname.clone());
                    }
                    for (l, v) in sfields {
                        match l {
                            Some(n) => {
                                if let Some(slot) =
                                    fields.iter_mut().find(|(l, _)| l.as_deref() == Some(n.as_str()))
                                {
                                    slot.1 = v;
                                } else {
                                    fields.push((Some(n), v));
                                }
                            }
                            None => return abstain("spread of an unlabelled field"),
                        }
                    }
                }
            }
        }
        let name = match &tu.name {
            ast::TupleName::Anonymous => None,
            ast::TupleName::Named(n) => Some(n.clone()),
            ast::TupleName::Inherit => match inherit {
                Some(n) => n,
                None => return abstain("inherit without a spread"),
            },
        };
        Ok(V::Tup(name, fields))
    }

    // ------------------------------------------------------------------------------------
    // A8 patterns

    fn bind(&mut self, name: &str, v: &V, binds: &mut Vec<(String, V)>) -> R<bool> {
        if let Some((_, prev)) = binds.iter().find(|(k, _)| k == name) {
            // a second occurrence of the same name requires structural equality with the first
            return equal(prev, v);
        }
        binds.push((name.to_string(), v.clone()));
        Ok(true)
    }

    fn pattern(&mut self, p: &Match, v: &V, env: &Env, binds: &mut Vec<(String, V)>) -> R<bool> {
        self.tick()?;
        match p {
            Match::Identifier(name, _) => self.bind(name, v, binds),
            Match::Placeholder => Ok(true),
            Match::Literal(ast::Literal::Integer(i)) => Ok(matches!(v, V::Int(x) if x == i)),
            Match::Literal(ast::Literal::Binary(b)) => Ok(matches!(v, V::Bin(x) if x == b)),
            Match::String(_, bytes) => Ok(matches!(v, V::Tup(Some(n), f)
                if n == "Str" && f.len() == 1 && f[0].0.is_none() && matches!(&f[0].1, V::Bin(b) if b == bytes))),
            Match::Reference(name, _) => {
                let w = self.lookup(name, env)?;
                equal(&w, v)
            }
            Match::Type(t) => self.member(v, t, env, 0),
            Match::As(t, name, _) => {
                if self.member(v, t, env, 0)? {
                    self.bind(name, v, binds)
                } else {
                    Ok(false)
                }
            }
            Match::Or(alts) => {
                for a in alts {
                    let mut trial = binds.clone();
                    if self.pattern(a, v, env, &mut trial)? {
                        *binds = trial;
                        return Ok(true);
                    }
                }
                Ok(false)
            }
            Match::Tuple(mt) => {
                let V::Tup(name, fields) = v else {
                    return Ok(false);
                };
                if &mt.name != name || mt.fields.len() != fields.len() {
                    return Ok(false);
                }
                for (pf, (l, fv)) in mt.fields.iter().zip(fields.iter()) {
                    if &pf.name != l {
                        return Ok(false);
                    }
                    if !self.pattern(&pf.pattern, fv, env, binds)? {
                        return Ok(false);
                    }
                }
                Ok(true)
            }
            Match::Partial(pp) => {
                let V::Tup(name, fields) = v else {
                    return Ok(false);
                };
                if pp.name.is_some() && &pp.name != name {
                    return Ok(false);
                }
                for pf in &pp.fields {
                    let Some((_, fv)) = fields.iter().find(|(l, _)| l.as_deref() == Some(pf.name.as_str())) else {
                        return Ok(false);
                    };
                    match &pf.pattern {
                        None => {
                            if !self.bind(&pf.name, fv, binds)? {
                                return Ok(false);
                            }
                        }
                        Some(sub) => {
                            if !self.pattern(sub, fv, env, binds)? {
                                return Ok(false);
                            }
                        }
                    }
                }
                Ok(true)
            }
            Match::Star(sname) => {
                let V::Tup(name, fields) = v else {
                    return Ok(false);
                };
                if sname.is_some() && sname != name {
                    return Ok(false);
                }
                if fields.iter().any(|(l, _)| l.is_none()) || fields.is_empty() {
                    return abstain("star pattern on a tuple with unlabelled or no fields");
                }
                for (l, fv) in fields {
                    if !self.bind(l.as_ref().unwrap(), fv, binds)? {
                        return Ok(false);
                    }
                }
                Ok(true)
            }
        }
    }

    /// Structural membership of a value in a source-level type (data types only).
    fn member(&mut self, v: &V, t: &ast::Type, env: &Env, depth: usize) -> R<bool> {
        if depth > 12 {
            return abstain("type recursion");
        }
        match t {
            ast::Type::Primitive(ast::PrimitiveType::Int) => Ok(matches!(v, V::Int(_))),
            ast::Type::Primitive(ast::PrimitiveType::Bin) => Ok(matches!(v, V::Bin(_))),
            ast::Type::Primitive(ast::PrimitiveType::Ref) => Ok(false),
            ast::Type::Union(u) => {
                for x in &u.types {
                    if self.member(v, x, env, depth + 1)? {
                        return Ok(true);
                    }
                }
                Ok(false)
            }
            ast::Type::Tuple(tt) => {
                let V::Tup(name, fields) = v else {
                    return Ok(false);
                };
                let mut ftypes = vec![];
                for f in &tt.fields {
                    match f {
                        ast::FieldType::Field { name, type_def } => ftypes.push((name.clone(), type_def)),
                        ast::FieldType::Spread { .. } => return abstain("type spread"),
                    }
                }
                if tt.is_partial {
                    if tt.name.is_some() && &tt.name != name {
                        return Ok(false);
                    }
                    for (l, ft) in ftypes {
                        let Some(l) = l else {
                            return abstain("unlabelled partial field");
                        };
                        let Some((_, fv)) = fields.iter().find(|(fl, _)| fl.as_deref() == Some(l.as_str())) else {
                            return Ok(false);
                        };
                        if !self.member(fv, ft, env, depth + 1)? {
                            return Ok(false);
                        }
                    }
                    Ok(true)
                } else {
                    if &tt.name != name || ftypes.len() != fields.len() {
                        return Ok(false);
                    }
                    for ((l, ft), (fl, fv)) in ftypes.iter().zip(fields.iter()) {
                        if l != fl || !self.member(fv, ft, env, depth + 1)? {
                            return Ok(false);
                        }
                    }
                    Ok(true)
                }
            }
            ast::Type::Identifier { name, arguments } => {
                if !arguments.is_empty() {
                    return abstain("parameterised type");
                }
                match env.aliases.get(name).cloned() {
                    Some(def) => self.member(v, &def, env, depth + 1),
                    None => abstain("unknown alias / type variable"),
                }
            }
            _ => abstain("type form outside the modelled set"),
        }
    }
}

fn binder_names(p: &Match, out: &mut Vec<String>) {
    match p {
        Match::Identifier(n, _) | Match::As(_, n, _) => out.push(n.clone()),
        Match::Tuple(mt) => {
            for f in &mt.fields {
                binder_names(&f.pattern, out);
            }
        }
        Match::Partial(pp) => {
            for f in &pp.fields {
                match &f.pattern {
                    None => out.push(f.name.clone()),
                    Some(s) => binder_names(s, out),
                }
            }
        }
        Match::Or(alts) => {
            for a in alts {
                binder_names(a, out);
            }
        }
        Match::Star(_) => out.push("*".into()),
        _ => {}
    }
}

/// Evaluate a source text. Returns the canonical rendering or the stop reason.
pub fn evaluate(source: &str, budget: usize) -> Result<String, Stop> {
    let ast = quiver_compiler::parse(source).map_err(|_| Stop::Abstain("parse error".into()))?;
    let mut i = Interp::new(budget);
    i.program(&ast).map(|v| render(&v))
}

/// Like [`evaluate`], also returning the dynamic events of the evaluation (see `Interp::events`).
pub fn evaluate_events(source: &str, budget: usize) -> (Result<String, Stop>, std::collections::BTreeSet<&'static str>) {
    let Ok(ast) = quiver_compiler::parse(source) else {
        return (Err(Stop::Abstain("parse error".into())), Default::default());
    };
    let mut i = Interp::new(budget);
    let r = i.program(&ast).map(|v| render(&v));
    (r, i.events)
}
