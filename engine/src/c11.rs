//! C11 — REPL evaluation is equivalent to evaluating the lines as one program.
//!
//! Explicit-state search over line histories; every state is a REAL session (real `Repl`, real
//! `Environment`, two real workers on the simulator's default schedule).
//!
//! * Part A: ALL sequences of <= N lines (N = 4 quick, 5 thorough) over a fixed alphabet of lines
//!   chosen to interact (rebinding, destructuring, a type alias and its use, a closure capturing an
//!   earlier binding, the flowing previous result, heap binaries and their orphan release, an
//!   import and its use, a parse error, a compile error, nil).
//! * Part B: EVERY way of cutting each program of a fixed corpus (multi-step programs taken from
//!   the repository's test-suite) into consecutive lines.
//!
//! Oracle — exactly the statement:
//!  1. as long as no earlier line evaluated to nil, the value of line i equals the value of the
//!     single program `line1 NEWLINE .. NEWLINE linei` (the lines the session accepted), compiled
//!     and run in one piece;
//!  2. a line rejected by the parser or the compiler leaves the session exactly as it was: every
//!     later result and the observable state (variables, their types, their values, the result
//!     flowing into `~`) equal those of the same history without that line;
//!  3. after every line each worker's heap accounting holds, and nothing panics / hangs.
//! What the statement does not determine (lines after a nil line; a line the REPL rejects although
//! the one-piece program would accept it) is counted, not judged.

use crate::infra::{Budget, Report, Tier, Violation};
use crate::qcompile::{self, CompileFail};
use crate::sim::session::{Eval, Session};
use rayon::prelude::*;
use serde_json::{Value as J, json};
use std::cell::RefCell;
use std::collections::{BTreeMap, BTreeSet, HashMap, HashSet};
use std::hash::{Hash, Hasher};
use std::panic::{AssertUnwindSafe, catch_unwind};
use std::sync::Mutex;

// ------------------------------------------------------------------------------------------------
// The universe

/// The line alphabet of part A. Order is part of the (deterministic) enumeration.
pub const ALPHABET: &[&str] = &[
    /* 0 */ "x = 1",
    /* 1 */ "x = [x, 2]",
    /* 2 */ "[a, b] = [x, 0x01]",
    /* 3 */ "'t = A | B['int]",
    /* 4 */ "h = #'t { | =A => 0 | =B[n] => n }, B[5] h",
    /* 5 */ "f = #'int { [~, x] __integer_add__ }",
    /* 6 */ "3 f",
    /* 7 */ "~",
    /* 8 */ "b = [0xaa, 0xbb] __binary_concat__",
    /* 9 */ "b = [b, 0xcc] __binary_concat__",
    /* 10 */ "(div) = %int",
    /* 11 */ "[7, 2] div",
    /* 12 */ "x = [1,",
    /* 13 */ "y = 5, [y, 0x01] __integer_add__",
    /* 14 */ "[]",
    /* 15 */ "{ | =('int)n => [n, 1] __integer_add__ | ~ => 1 | 0 }",
    // a compiler-rejected line that imports a module (possibly the session's first import of it),
    // the same import in an accepted line, and a type alias that takes the name of a variable
    /* 16 */ "[7, 2] %int.div nope",
    /* 17 */ "[7, 2] %int.div",
    /* 18 */ "'x = 'int",
    // a line of several steps whose middle step yields nil (the steps after it never run): the
    // session must survive it
    /* 19 */ "y = 5\n[q, 9] = [1, 2]\nz = 2",
    // a module *type* first mentioned by a compiler-rejected line, then used by an accepted one
    /* 20 */ "l = Cons[3, Cons[4, Nil]]",
    /* 21 */ "l =('%list<'int>)m, nope",
    /* 22 */ "l =('%list<'int>)m, m",
];

/// The first CORE_LINES lines of the alphabet are its core (the lines of the first version of this
/// check). Histories of up to WIDE_LEN lines range over the whole alphabet; longer ones (up to the
/// tier's maximum) over the core only — breadth at the lengths where almost every REPL defect
/// shows, depth where the interactions are densest, and a universe that the quick tier finishes.
const CORE_LINES: usize = 16;
static WIDE_LEN: std::sync::atomic::AtomicUsize = std::sync::atomic::AtomicUsize::new(3);

fn in_universe(prefix: &[u8], c: u8) -> bool {
    let wide = WIDE_LEN.load(std::sync::atomic::Ordering::Relaxed);
    prefix.len() + 1 <= wide || (prefix.iter().all(|x| (*x as usize) < CORE_LINES) && (c as usize) < CORE_LINES)
}

fn universe_size(max_len: usize) -> u64 {
    let wide = WIDE_LEN.load(std::sync::atomic::Ordering::Relaxed);
    (1..=max_len)
        .map(|d| if d <= wide { (ALPHABET.len() as u64).pow(d as u32) } else { (CORE_LINES as u64).pow(d as u32) })
        .sum()
}

/// A top-level tail call on a REPL line (no one-piece counterpart: in one program it ends the
/// program). Judged differentially by `tail_call_pass`.
const TAIL_DEF: &str = "g = #'int { =0 => 9 | [~, 1] __integer_subtract__ ^ }";
const TAIL_LINE: &str = "2 ^g";

/// Replacement lines tried by the shrinker, simplest first ("the simplest term of its sort").
const SIMPLEST_VALUE: [&str; 3] = ["0", "Ok", "~"];
const SIMPLEST_TYPEDEF: [&str; 1] = ["'t = A"];

const CORPUS_JSON: &str = include_str!("../data/c11/corpus.json");

struct CorpusProgram {
    id: String,
    origin: String,
    steps: Vec<String>,
}

fn corpus() -> Result<Vec<CorpusProgram>, String> {
    let j: J = serde_json::from_str(CORPUS_JSON).map_err(|e| format!("corpus.json: {}", e))?;
    let mut out = vec![];
    for p in j["programs"].as_array().ok_or("corpus.json: no programs")? {
        out.push(CorpusProgram {
            id: p["id"].as_str().unwrap_or("?").to_string(),
            origin: p["origin"].as_str().unwrap_or("?").to_string(),
            steps: p["steps"]
                .as_array()
                .map(|a| a.iter().filter_map(|s| s.as_str().map(String::from)).collect())
                .unwrap_or_default(),
        });
    }
    Ok(out)
}

// ------------------------------------------------------------------------------------------------
// Observations

/// What one REPL line did, in comparable form.
#[derive(Clone, Debug, PartialEq, Eq, Hash)]
pub enum Obs {
    /// canonical rendering of the value (function / builtin table indices erased)
    Value(String),
    NoCode,
    Parse(String),
    Compile(String),
    Runtime(String),
    Broken(String),
}

impl Obs {
    fn rejected(&self) -> bool {
        matches!(self, Obs::Parse(_) | Obs::Compile(_))
    }
    fn dead(&self) -> bool {
        matches!(self, Obs::Runtime(_) | Obs::Broken(_))
    }
    fn is_nil(&self) -> bool {
        matches!(self, Obs::Value(v) if v == "[]")
    }
    fn kind(&self) -> String {
        match self {
            Obs::Value(_) => "value".into(),
            Obs::NoCode => "no-code".into(),
            Obs::Parse(_) => "parse-error".into(),
            Obs::Compile(m) => format!("compile-error:{}", head(m)),
            Obs::Runtime(m) => format!("runtime-error:{}", head(m)),
            Obs::Broken(_) => "broken".into(),
        }
    }
    fn show(&self) -> String {
        match self {
            Obs::Value(v) => v.clone(),
            Obs::NoCode => "<no code>".into(),
            Obs::Parse(m) => format!("<parse error: {}>", m),
            Obs::Compile(m) => format!("<compile error: {}>", m),
            Obs::Runtime(m) => format!("<runtime error: {}>", m),
            Obs::Broken(m) => format!("<BROKEN: {}>", m),
        }
    }
}

/// The real parser, panic-safe.
fn parses(text: &str) -> bool {
    catch_unwind(AssertUnwindSafe(|| quiver_compiler::parse(text).is_ok())).unwrap_or(false)
}

fn head(m: &str) -> String {
    m.chars().take_while(|c| c.is_alphanumeric() || *c == '_').collect()
}

/// Erase program-table indices from a canonical rendering: `#12{..}` -> `#fn{..}`,
/// `__builtin7__` -> `__builtin__`. Function identity by table index is not something the
/// statement speaks about, and the REPL's merged program numbers functions differently from the
/// one-piece program by construction.
fn norm(s: &str) -> String {
    let b = s.as_bytes();
    let mut out = String::with_capacity(s.len());
    let mut i = 0;
    while i < b.len() {
        if b[i] == b'#' && i + 1 < b.len() && b[i + 1].is_ascii_digit() {
            out.push_str("#fn");
            i += 1;
            while i < b.len() && b[i].is_ascii_digit() {
                i += 1;
            }
        } else if s[i..].starts_with("&ref") {
            // refs are renamed by first occurrence per rendering; identity across separately
            // rendered values cannot be compared, so only "is a ref" is kept
            out.push_str("&ref");
            i += "&ref".len();
            while i < b.len() && b[i].is_ascii_digit() {
                i += 1;
            }
        } else if s[i..].starts_with("__builtin") {
            out.push_str("__builtin");
            i += "__builtin".len();
            while i < b.len() && b[i].is_ascii_digit() {
                i += 1;
            }
        } else {
            let ch = s[i..].chars().next().unwrap();
            out.push(ch);
            i += ch.len_utf8();
        }
    }
    out
}

fn h64(s: &str, salt: u64) -> u64 {
    let mut h = std::collections::hash_map::DefaultHasher::new();
    salt.hash(&mut h);
    s.hash(&mut h);
    h.finish()
}

fn h128(s: &str) -> u128 {
    ((h64(s, 1) as u128) << 64) | h64(s, 2) as u128
}

/// The observable state of a session: bindings with types, every bound variable's value, and the
/// result that flows into the next line.
#[derive(Clone, Debug, PartialEq, Eq)]
pub struct Snap {
    vars: Vec<(String, String, String)>,
    last: String,
}

impl Snap {
    fn text(&self) -> String {
        let mut s = String::new();
        for (n, t, v) in &self.vars {
            s.push_str(&format!("{}: {} = {}; ", n, t, v));
        }
        s.push_str(&format!("~ = {}", self.last));
        s
    }
}

// ------------------------------------------------------------------------------------------------
// A real session with the bookkeeping the oracle needs

struct Sess {
    s: Option<Session>,
    /// the result flowing into the next line (tracked from the delivered results)
    last: String,
    line_evals: u64,
}

impl Sess {
    fn new() -> Result<Sess, String> {
        let s = catch_unwind(AssertUnwindSafe(|| Session::new(2, HashMap::new())))
            .map_err(|_| format!("panic in Session::new: {}", crate::sim::system::take_panic()))??;
        Ok(Sess {
            s: Some(s),
            last: "[]".into(),
            line_evals: 0,
        })
    }

    fn eval(&mut self, line: &str) -> Obs {
        let Some(s) = self.s.as_mut() else {
            return Obs::Broken("session is gone".into());
        };
        self.line_evals += 1;
        let r = catch_unwind(AssertUnwindSafe(|| s.eval(line)));
        let o = match r {
            Err(_) => {
                self.s = None; // poisoned
                Obs::Broken(format!("panic: {}", crate::sim::system::take_panic()))
            }
            Ok(Eval::Value(c, _)) => Obs::Value(norm(&c)),
            Ok(Eval::NoCode) => Obs::NoCode,
            Ok(Eval::ParseError(m)) => Obs::Parse(m),
            Ok(Eval::CompileError(m)) => Obs::Compile(m),
            Ok(Eval::RuntimeError(m)) => Obs::Runtime(m),
            Ok(Eval::Broken(m)) => Obs::Broken(m),
        };
        if let Obs::Value(v) = &o {
            self.last = v.clone();
        }
        o
    }

    /// I-heap on every worker (refcounts vs. reachability, free list consistency).
    fn heap(&mut self) -> Vec<String> {
        let Some(s) = self.s.as_mut() else {
            return vec![];
        };
        let r = catch_unwind(AssertUnwindSafe(|| {
            let mut out = vec![];
            for i in 0..s.sys.workers.len() {
                for (_, p) in crate::sim::monitors::check_heap(&mut s.sys, i) {
                    out.push(p);
                }
            }
            out
        }));
        match r {
            Ok(v) => v,
            Err(_) => vec![format!("panic in heap check: {}", crate::sim::system::take_panic())],
        }
    }

    fn snapshot(&mut self) -> Result<Snap, String> {
        let last = self.last.clone();
        let Some(s) = self.s.as_mut() else {
            return Err("session is gone".into());
        };
        let r = catch_unwind(AssertUnwindSafe(|| {
            let mut vars = vec![];
            for (name, ty) in s.variables() {
                let v = s.variable(&name).map_err(|e| format!("variable({}): {}", name, e))?;
                vars.push((name, ty, norm(&v)));
            }
            Ok::<_, String>(vars)
        }));
        match r {
            Ok(Ok(vars)) => Ok(Snap { vars, last }),
            Ok(Err(e)) => Err(e),
            Err(_) => {
                self.s = None;
                Err(format!("panic reading variables: {}", crate::sim::system::take_panic()))
            }
        }
    }

    fn close(mut self) {
        if let Some(s) = self.s.take() {
            let _ = catch_unwind(AssertUnwindSafe(|| s.close()));
        }
    }
}

// ------------------------------------------------------------------------------------------------
// The one-piece program

#[derive(Clone, Debug, PartialEq, Eq)]
enum One {
    Value(String),
    NoCode,
    Parse(String),
    Compile(String),
    Runtime(String),
    Panic(String),
}

impl One {
    fn show(&self) -> String {
        match self {
            One::Value(v) => v.clone(),
            One::NoCode => "<no code>".into(),
            One::Parse(m) => format!("<parse error: {}>", m),
            One::Compile(m) => format!("<compile error: {}>", m),
            One::Runtime(m) => format!("<runtime error: {}>", m),
            One::Panic(m) => format!("<PANIC: {}>", m),
        }
    }
    fn rejected(&self) -> bool {
        matches!(self, One::Parse(_) | One::Compile(_))
    }
}

#[derive(Clone, Copy, PartialEq, Eq, Debug)]
enum Mode {
    /// `qcompile::compile` + `quiver_core::execute_bytecode_sync` (no REPL, no environment)
    Sync,
    /// a fresh real session evaluating the joined text as ONE line (needed for processes)
    FreshSession,
}

struct OnePiece {
    mode: Mode,
    builtins: quiver_core::builtins::BuiltinRegistry<qcompile::E>,
    cache: HashMap<String, One>,
    compile_cache: HashMap<String, bool>,
    runs: u64,
}

impl OnePiece {
    fn new(mode: Mode) -> OnePiece {
        OnePiece {
            mode,
            builtins: qcompile::core_builtins(),
            cache: HashMap::new(),
            compile_cache: HashMap::new(),
            runs: 0,
        }
    }

    fn eval(&mut self, text: &str) -> One {
        if let Some(r) = self.cache.get(text) {
            return r.clone();
        }
        self.runs += 1;
        let r = match self.mode {
            Mode::Sync => self.eval_sync(text),
            Mode::FreshSession => Self::eval_session(text),
        };
        self.cache.insert(text.to_string(), r.clone());
        r
    }

    fn eval_sync(&self, text: &str) -> One {
        let b = &self.builtins;
        let r = catch_unwind(AssertUnwindSafe(|| {
            let unit = match qcompile::compile(text, b) {
                Ok(u) => u,
                Err(CompileFail::Parse(e)) => return One::Parse(e),
                Err(CompileFail::Compile(e)) => return One::Compile(e),
                Err(CompileFail::Panic(e)) => return One::Panic(e),
            };
            match quiver_core::execute_bytecode_sync(unit.bytecode(), b, false) {
                Err(e) => One::Runtime(format!("{:?}", e)),
                Ok((v, ex)) => match ex.extract_heap_data(&v) {
                    Err(e) => One::Panic(format!("extract_heap_data: {:?}", e)),
                    Ok((v, heap)) => {
                        let refs = RefCell::new(BTreeMap::new());
                        let r = crate::render::Renderer {
                            types: &unit.program,
                            heap: &heap,
                            constants: unit.program.get_constants(),
                            pid_names: None,
                            ref_names: Some(&refs),
                        };
                        One::Value(norm(&r.render(&v)))
                    }
                },
            }
        }));
        r.unwrap_or_else(|_| One::Panic(crate::sim::system::take_panic()))
    }

    fn eval_session(text: &str) -> One {
        let mut s = match Sess::new() {
            Ok(s) => s,
            Err(e) => return One::Panic(e),
        };
        let r = match s.eval(text) {
            Obs::Value(v) => One::Value(v),
            Obs::NoCode => One::NoCode,
            Obs::Parse(m) => One::Parse(m),
            Obs::Compile(m) => One::Compile(m),
            Obs::Runtime(m) => One::Runtime(m),
            Obs::Broken(m) => One::Panic(m),
        };
        s.close();
        r
    }

    /// Does the text get through the parser and the compiler in one piece?
    fn compiles(&mut self, text: &str) -> bool {
        if let Some(r) = self.cache.get(text) {
            return !r.rejected();
        }
        if let Some(r) = self.compile_cache.get(text) {
            return *r;
        }
        let b = &self.builtins;
        let ok = catch_unwind(AssertUnwindSafe(|| qcompile::compile(text, b).is_ok())).unwrap_or(false);
        self.compile_cache.insert(text.to_string(), ok);
        ok
    }
}

// ------------------------------------------------------------------------------------------------
// One step of the oracle (shared by the enumerator, the corpus runner, the shrinker and replay)

#[derive(Clone, Debug, PartialEq, Eq)]
pub struct Fail {
    /// `value` | `variables` | `onepiece-rejected` | `scope` | `rejected-line` | `heap` | `broken` | `flow`
    class: &'static str,
    /// refinement of the class that the shrinker must preserve (e.g. how the one-piece program
    /// was rejected), so that shrinking does not slide from one root cause onto another
    sub: String,
    /// index of the line (in the history) at which it showed
    at: usize,
    observed: String,
    expected: String,
}

#[derive(Default, Clone)]
struct Counters {
    transitions: u64,
    compared: u64,
    compared_hoisted: u64,
    not_judged_after_nil: u64,
    repl_rejects_onepiece_accepts: u64,
    repl_rejects_onepiece_rejects: u64,
    vars_compared: u64,
    vars_not_comparable: u64,
    kinds: BTreeMap<String, u64>,
    /// one example per distinct rejection message
    stricter_samples: BTreeMap<String, String>,
}

impl Counters {
    fn merge(&mut self, o: &Counters) {
        self.transitions += o.transitions;
        self.compared += o.compared;
        self.compared_hoisted += o.compared_hoisted;
        self.not_judged_after_nil += o.not_judged_after_nil;
        self.repl_rejects_onepiece_accepts += o.repl_rejects_onepiece_accepts;
        self.repl_rejects_onepiece_rejects += o.repl_rejects_onepiece_rejects;
        self.vars_compared += o.vars_compared;
        self.vars_not_comparable += o.vars_not_comparable;
        for (k, v) in &o.kinds {
            *self.kinds.entry(k.clone()).or_insert(0) += v;
        }
        for (k, s) in &o.stricter_samples {
            if self.stricter_samples.len() < 12 && !self.stricter_samples.contains_key(k) {
                self.stricter_samples.insert(k.clone(), s.clone());
            }
        }
    }
}

/// The part of a history's past the oracle needs.
#[derive(Clone, Default)]
struct Past {
    /// lines the session accepted so far (value or no-code), in order
    accepted: Vec<String>,
    /// which of them were no-code (type definitions only)
    nocode: Vec<bool>,
    /// an accepted line evaluated to nil
    nil_seen: bool,
}

impl Past {
    fn exact(&self, line: &str) -> String {
        let mut v: Vec<&str> = self.accepted.iter().map(|s| s.as_str()).collect();
        v.push(line);
        v.join("\n")
    }

    /// The same program with the type-definition-only lines moved to the front (they are
    /// "transparent to the flow", spec *Expressions*). Only offered when that cannot change the
    /// meaning: all such lines are textually identical or there is only one.
    fn hoisted(&self, line: &str) -> Option<String> {
        let defs: Vec<&str> = self
            .accepted
            .iter()
            .zip(&self.nocode)
            .filter(|(_, n)| **n)
            .map(|(l, _)| l.as_str())
            .collect();
        if defs.is_empty() || defs.iter().any(|d| *d != defs[0]) {
            return None;
        }
        let mut v: Vec<&str> = vec![defs[0]];
        v.extend(
            self.accepted
                .iter()
                .zip(&self.nocode)
                .filter(|(_, n)| !**n)
                .map(|(l, _)| l.as_str()),
        );
        v.push(line);
        Some(v.join("\n"))
    }

    fn advance(&mut self, line: &str, o: &Obs) {
        match o {
            Obs::Value(_) => {
                self.accepted.push(line.to_string());
                self.nocode.push(false);
                if o.is_nil() {
                    self.nil_seen = true;
                }
            }
            Obs::NoCode => {
                self.accepted.push(line.to_string());
                self.nocode.push(true);
            }
            _ => {}
        }
    }
}

/// Evaluate `line` in `sess` (whose past is `past`) and judge it. Returns the observation, the
/// failures of clauses 1 and 3 at this line, and the snapshot after the line (None when the
/// session broke).
fn step(
    sess: &mut Sess,
    past: &Past,
    line: &str,
    at: usize,
    one: &mut OnePiece,
    c: &mut Counters,
) -> (Obs, Vec<Fail>, Option<Snap>) {
    let o = sess.eval(line);
    c.transitions += 1;
    *c.kinds.entry(o.kind()).or_insert(0) += 1;
    let mut fails = vec![];
    if let Obs::Broken(m) = &o {
        fails.push(Fail {
            class: "broken",
            sub: String::new(),
            at,
            observed: m.clone(),
            expected: "a result or an error report".into(),
        });
        return (o, fails, None);
    }
    for p in sess.heap() {
        fails.push(Fail {
            class: "heap",
            sub: String::new(),
            at,
            observed: p,
            expected: "heap accounting holds on every worker after the line".into(),
        });
    }
    let snap = match sess.snapshot() {
        Ok(s) => Some(s),
        Err(e) => {
            if !o.dead() {
                fails.push(Fail {
                    class: "broken",
                    sub: String::new(),
                    at,
                    observed: e,
                    expected: "every bound variable can be read".into(),
                });
            }
            None
        }
    };
    if past.nil_seen {
        c.not_judged_after_nil += 1;
        return (o, fails, snap);
    }
    // the one-piece program text that the variables check below extends (None: not comparable)
    let mut base: Option<String> = None;
    match &o {
        Obs::Value(_) | Obs::Runtime(_) => {
            let exact_text = past.exact(line);
            let exact = one.eval(&exact_text);
            c.compared += 1;
            let mut reference = Some(exact.clone());
            base = Some(exact_text);
            if exact.rejected() {
                fails.push(Fail {
                    class: "onepiece-rejected",
                    sub: match &exact {
                        One::Parse(_) => "parse".into(),
                        One::Compile(m) => format!("compile:{}", head(m)),
                        _ => String::new(),
                    },
                    at,
                    observed: format!("the session accepted every line; this line gave {}", o.show()),
                    expected: format!("the one-piece program is rejected: {}", exact.show()),
                });
                reference = None;
                base = None;
                if let Some(h) = past.hoisted(line) {
                    let r = one.eval(&h);
                    c.compared_hoisted += 1;
                    if !r.rejected() {
                        reference = Some(r);
                        base = Some(h);
                    }
                }
            }
            if let Some(reference) = reference {
                let same = match (&o, &reference) {
                    (Obs::Value(a), One::Value(b)) => a == b,
                    (Obs::Runtime(_), One::Runtime(_)) => true,
                    _ => false,
                };
                if !same {
                    fails.push(Fail {
                        class: "value",
                        sub: String::new(),
                        at,
                        observed: o.show(),
                        expected: reference.show(),
                    });
                }
            }
            if o.is_nil() || o.dead() {
                base = None; // the one-piece program short-circuits / stops here
            }
        }
        Obs::NoCode => {
            let exact_text = past.exact(line);
            if one.compiles(&exact_text) {
                base = Some(exact_text);
            } else if let Some(h) = past.hoisted(line) {
                if one.compiles(&h) {
                    base = Some(h);
                }
            }
        }
        Obs::Parse(_) | Obs::Compile(_) => {
            // "with every earlier binding and type alias still in scope": a name the one-piece
            // program resolves must resolve in the session. Any other rejection of a line the
            // one-piece program accepts is static typing being stricter in the session (it types
            // the flowing value with the previous line's full result type, nil included, and does
            // not carry flow-narrowing of a variable across lines) — the statement does not
            // determine that: count.
            let accepts = one.compiles(&past.exact(line))
                || past.hoisted(line).map(|h| one.compiles(&h)).unwrap_or(false);
            let scope_error = match &o {
                Obs::Compile(m) => {
                    let h = head(m);
                    (h == "VariableUndefined" || h == "TypeAliasMissing").then_some(h)
                }
                _ => None,
            };
            if let (true, Some(h)) = (accepts, &scope_error) {
                fails.push(Fail {
                    class: "scope",
                    sub: h.clone(),
                    at,
                    observed: o.show(),
                    expected: "the one-piece program resolves every name of this line".into(),
                });
            } else if accepts {
                c.repl_rejects_onepiece_accepts += 1;
                if c.stricter_samples.len() < 12 && !c.stricter_samples.contains_key(&o.show()) {
                    c.stricter_samples.insert(
                        o.show(),
                        format!("{} ⏎ >>> {}   -> {}", past.accepted.join(" ⏎ "), line, o.show()),
                    );
                }
            } else {
                c.repl_rejects_onepiece_rejects += 1;
            }
        }
        Obs::Broken(_) => {}
    }
    // "with every earlier binding ... still in scope": the value the session reports for each
    // bound variable (`request_variable`) equals the value the name has at this point of the
    // one-piece program, observed by one more step `[&v1, &v2, ..]`.
    if let (Some(base), Some(snap)) = (&base, &snap) {
        if !snap.vars.is_empty() {
            let names: Vec<String> = snap.vars.iter().map(|(n, _, _)| format!("&{}", n)).collect();
            let program = format!("{}\n[{}]", base, names.join(", "));
            let expected = format!(
                "[{}]",
                snap.vars.iter().map(|(_, _, v)| v.as_str()).collect::<Vec<_>>().join(", ")
            );
            match one.eval(&program) {
                One::Value(v) => {
                    c.vars_compared += 1;
                    if v != expected {
                        fails.push(Fail {
                            class: "variables",
                            sub: String::new(),
                            at,
                            observed: format!(
                                "request_variable of [{}] gives {}",
                                snap.vars.iter().map(|(n, _, _)| n.as_str()).collect::<Vec<_>>().join(", "),
                                expected
                            ),
                            expected: format!("{} (the one-piece program followed by `[{}]`)", v, names.join(", ")),
                        });
                    }
                }
                _ => c.vars_not_comparable += 1,
            }
        }
    }
    (o, fails, snap)
}

// ------------------------------------------------------------------------------------------------
// Judging one whole history in isolation (shrinker, replay, confirmation of enumerator findings)

pub struct Judged {
    obs: Vec<Obs>,
    fails: Vec<Fail>,
}

/// Run `lines` in a fresh session with the full oracle; clause 2 is checked against a second fresh
/// session running the history without the rejected lines.
fn judge(lines: &[String], mode: Mode) -> Result<Judged, String> {
    let mut one = OnePiece::new(mode);
    let mut c = Counters::default();
    let mut sess = Sess::new()?;
    let mut past = Past::default();
    let mut obs = vec![];
    let mut snaps: Vec<Option<Snap>> = vec![];
    let mut fails = vec![];
    for (i, l) in lines.iter().enumerate() {
        let (o, f, s) = step(&mut sess, &past, l, i, &mut one, &mut c);
        fails.extend(f);
        past.advance(l, &o);
        let dead = o.dead();
        obs.push(o);
        snaps.push(s);
        if dead {
            break;
        }
    }
    let alive = !obs.last().map(|o| o.dead()).unwrap_or(false);
    // the flowing value, observed
    let probe = if alive { Some(sess.eval("~")) } else { None };
    if let Some(p) = &probe {
        if !past.nil_seen && *p != Obs::Value(sess.last.clone()) && !lines.is_empty() {
            fails.push(Fail {
                class: "flow",
                sub: String::new(),
                at: obs.len() - 1,
                observed: format!("a following line `~` yields {}", p.show()),
                expected: format!("the previous result {}", sess.last),
            });
        }
    }
    sess.close();
    // clause 2
    if obs.iter().any(|o| o.rejected()) {
        let kept: Vec<usize> = (0..obs.len()).filter(|i| !obs[*i].rejected()).collect();
        let mut s2 = Sess::new()?;
        let mut last_snap: Option<Snap> = s2.snapshot().ok();
        let mut k = 0usize;
        let mut dead2 = false;
        for i in 0..obs.len() {
            if obs[i].rejected() {
                // state after the rejected line must equal the state of the clean run here
                if !dead2 && snaps[i].is_some() && snaps[i] != last_snap {
                    fails.push(Fail {
                        class: "rejected-line",
                        sub: String::new(),
                        at: i,
                        observed: format!("state after the rejected line: {}", show_snap(&snaps[i])),
                        expected: format!("state without it: {}", show_snap(&last_snap)),
                    });
                }
                // a line rejected after earlier rejected lines is rejected without them too
                // (and in the same way); otherwise an earlier rejected line left something behind
                if !dead2 && (0..i).any(|j| obs[j].rejected()) {
                    let o2 = s2.eval(&lines[i]);
                    if o2 != obs[i] {
                        fails.push(Fail {
                            class: "rejected-line",
                            sub: String::new(),
                            at: i,
                            observed: format!("line yields {}", obs[i].show()),
                            expected: format!("{} (same history without the earlier rejected lines)", o2.show()),
                        });
                        // the clean session has moved on; nothing after this line is comparable
                        dead2 = true;
                    }
                }
                continue;
            }
            if dead2 {
                break;
            }
            let o2 = s2.eval(&lines[i]);
            let sn2 = s2.snapshot().ok();
            k += 1;
            let had_rejected_before = kept[k - 1] != k - 1;
            if had_rejected_before && o2 != obs[i] {
                fails.push(Fail {
                    class: "rejected-line",
                    sub: String::new(),
                    at: i,
                    observed: format!("line yields {}", obs[i].show()),
                    expected: format!("{} (same history without the rejected lines)", o2.show()),
                });
            } else if had_rejected_before && !o2.dead() && snaps[i].is_some() && snaps[i] != sn2 {
                fails.push(Fail {
                    class: "rejected-line",
                    sub: String::new(),
                    at: i,
                    observed: format!("state: {}", show_snap(&snaps[i])),
                    expected: format!("{} (same history without the rejected lines)", show_snap(&sn2)),
                });
            }
            dead2 = o2.dead();
            last_snap = sn2;
        }
        if let (Some(p), false) = (&probe, dead2) {
            let p2 = s2.eval("~");
            if *p != p2 {
                fails.push(Fail {
                    class: "rejected-line",
                    sub: String::new(),
                    at: obs.len() - 1,
                    observed: format!("a following line `~` yields {}", p.show()),
                    expected: format!("{} (same history without the rejected lines)", p2.show()),
                });
            }
        }
        s2.close();
    }
    Ok(Judged { obs, fails })
}

fn show_snap(s: &Option<Snap>) -> String {
    match s {
        Some(s) => s.text(),
        None => "<unreadable>".into(),
    }
}

fn signature(class: &str, sub: &str, lines: &[String]) -> String {
    if sub.is_empty() {
        format!("{}: {}", class, lines.join(" ⏎ "))
    } else {
        format!("{}({}): {}", class, sub, lines.join(" ⏎ "))
    }
}

/// Deterministic shrinker: drop a line / keep only one side of a top-level `, ` inside a line /
/// replace a line by the simplest line of its sort (value-producing lines by `0`, `Ok`, `~`;
/// type-definition lines by `'t = A`), keeping a change only if the same (class, sub-class) of
/// failure persists, to a fixpoint.
fn shrink(lines: &[String], class: &'static str, sub: &str, mode: Mode) -> Result<Vec<String>, String> {
    let run = |ls: &[String]| -> Result<Option<Judged>, String> {
        let j = judge(ls, mode)?;
        Ok(j.fails.iter().any(|f| f.class == class && f.sub == sub).then_some(j))
    };
    let mut cur: Vec<String> = lines.to_vec();
    let Some(mut cur_j) = run(&cur)? else {
        return Err(format!("C11: {}({}) failure of {:?} does not reproduce in isolation", class, sub, lines));
    };
    loop {
        let mut changed = false;
        // 1. drop a line
        let mut i = 0;
        while i < cur.len() {
            let mut cand = cur.clone();
            cand.remove(i);
            if !cand.is_empty() {
                if let Some(j) = run(&cand)? {
                    cur = cand;
                    cur_j = j;
                    changed = true;
                    continue;
                }
            }
            i += 1;
        }
        // 2. keep one side of a `, ` (both sides must parse on their own)
        let mut i = 0;
        'lines: while i < cur.len() {
            let line = cur[i].clone();
            let cuts: Vec<usize> = line.match_indices(", ").map(|(p, _)| p).collect();
            for p in cuts {
                let (l, r) = (line[..p].trim().to_string(), line[p + 2..].trim().to_string());
                if l.is_empty() || r.is_empty() || !parses(&l) || !parses(&r) {
                    continue;
                }
                for side in [l, r] {
                    let mut cand = cur.clone();
                    cand[i] = side;
                    if let Some(j) = run(&cand)? {
                        cur = cand;
                        cur_j = j;
                        changed = true;
                        continue 'lines; // same index again, the line got shorter
                    }
                }
            }
            i += 1;
        }
        // 3. replace a line by the simplest line of its sort
        for i in 0..cur.len() {
            let sort: &[&str] = match cur_j.obs.get(i) {
                Some(Obs::Value(_)) => &SIMPLEST_VALUE,
                Some(Obs::NoCode) => &SIMPLEST_TYPEDEF,
                _ => &[],
            };
            let here = sort.iter().position(|s| *s == cur[i]).unwrap_or(sort.len());
            for simple in &sort[..here] {
                let mut cand = cur.clone();
                cand[i] = simple.to_string();
                if let Some(j) = run(&cand)? {
                    cur = cand;
                    cur_j = j;
                    changed = true;
                    break;
                }
            }
        }
        if !changed {
            return Ok(cur);
        }
    }
}

// ------------------------------------------------------------------------------------------------
// Part A: the enumerator (prefix-sharing depth-first search over real sessions)

fn key_of(hist: &[u8]) -> u64 {
    let mut k = 0u64;
    for &c in hist {
        k = k * (ALPHABET.len() as u64 + 1) + c as u64 + 1;
    }
    k
}

struct NodeRec {
    key: u64,
    clean_key: u64,
    has_rejected: bool,
    last_rejected: bool,
    /// the history with the rejected lines of its *prefix* removed and its last line kept,
    /// whatever that line's own fate (0 = no rejected line in the prefix)
    prefix_clean_key: u64,
    outcome: u64,
    state: u128,
    /// the snapshot could be taken (otherwise a `broken` failure was reported at this node)
    readable: bool,
}

#[derive(Default)]
struct SliceOut {
    nodes: Vec<NodeRec>,
    by_depth: BTreeMap<usize, u64>,
    states: HashSet<u128>,
    counters: Counters,
    replayed: u64,
    sessions: u64,
    onepiece_runs: u64,
    /// (class, history) of every failing node
    failing: Vec<(&'static str, Vec<u8>, Fail)>,
    probes: u64,
    samples: Vec<J>,
}

struct Dfs<'a> {
    max_len: usize,
    one: OnePiece,
    out: SliceOut,
    budget: &'a Budget,
    capped: bool,
}

struct Node {
    hist: Vec<u8>,
    obs: Vec<Obs>,
    past: Past,
}

impl Dfs<'_> {
    /// A fresh session brought to the state after `node.hist` (not judged again; the observations
    /// must repeat — the implementation is deterministic on the default schedule).
    fn replay_to(&mut self, node: &Node) -> Result<Sess, String> {
        let mut s = Sess::new()?;
        self.out.sessions += 1;
        for (i, &c) in node.hist.iter().enumerate() {
            let o = s.eval(ALPHABET[c as usize]);
            self.out.replayed += 1;
            if o != node.obs[i] {
                return Err(format!(
                    "non-deterministic replay of {:?} at line {}: {} then {}",
                    node.hist,
                    i,
                    node.obs[i].show(),
                    o.show()
                ));
            }
        }
        Ok(s)
    }

    /// Visit every child of `node`; `own` is a session already in `node`'s state (used for the last
    /// child, the others get a replayed one).
    fn children(&mut self, node: &Node, own: Sess) -> Result<(), String> {
        // histories of the full length use the core lines only (see CORE_LINES)
        let candidates: Vec<usize> = (0..ALPHABET.len()).filter(|c| in_universe(&node.hist, *c as u8)).collect();
        let mut own = Some(own);
        for (k, c) in candidates.iter().enumerate() {
            if self.budget.exhausted() {
                self.capped = true;
                break;
            }
            let sess = if k + 1 == candidates.len() {
                own.take().unwrap()
            } else {
                self.replay_to(node)?
            };
            self.visit(node, *c as u8, sess)?;
        }
        if let Some(s) = own {
            s.close();
        }
        Ok(())
    }

    fn visit(&mut self, parent: &Node, c: u8, mut sess: Sess) -> Result<(), String> {
        let line = ALPHABET[c as usize];
        let at = parent.hist.len();
        let (o, fails, snap) = step(&mut sess, &parent.past, line, at, &mut self.one, &mut self.out.counters);
        let mut hist = parent.hist.clone();
        hist.push(c);
        *self.out.by_depth.entry(hist.len()).or_insert(0) += 1;
        for f in fails {
            self.out.failing.push((f.class, hist.clone(), f));
        }
        let mut obs = parent.obs.clone();
        obs.push(o.clone());
        let mut past = parent.past.clone();
        past.advance(line, &o);
        let state_text = match &snap {
            Some(s) => s.text(),
            None => "<unreadable>".to_string(),
        };
        let state = h128(&state_text);
        if snap.is_some() {
            self.out.states.insert(state);
        }
        let clean: Vec<u8> = hist
            .iter()
            .zip(&obs)
            .filter(|(_, o)| !o.rejected())
            .map(|(c, _)| *c)
            .collect();
        let mut prefix_clean: Vec<u8> = hist[..hist.len() - 1]
            .iter()
            .zip(&obs)
            .filter(|(_, o)| !o.rejected())
            .map(|(c, _)| *c)
            .collect();
        let prefix_has_rejected = prefix_clean.len() != hist.len() - 1;
        prefix_clean.push(c);
        self.out.nodes.push(NodeRec {
            key: key_of(&hist),
            prefix_clean_key: if prefix_has_rejected { key_of(&prefix_clean) } else { 0 },
            clean_key: key_of(&clean),
            has_rejected: clean.len() != hist.len(),
            last_rejected: o.rejected(),
            outcome: h64(&format!("{:?}", o), 3),
            state,
            readable: snap.is_some(),
        });
        if self.out.samples.is_empty()
            && hist.len() == self.max_len
            && !past.nil_seen
            && hist.iter().collect::<BTreeSet<_>>().len() == hist.len()
            && obs.iter().filter(|o| matches!(o, Obs::Value(v) if v != "Ok")).count() >= 2
            && obs.iter().filter(|o| o.rejected()).count() == 1
        {
            self.out.samples.push(json!({
                "history": hist.iter().map(|c| ALPHABET[*c as usize]).collect::<Vec<_>>(),
                "repl": obs.iter().map(|o| o.show()).collect::<Vec<_>>(),
                "state_after": state_text,
            }));
        }
        let node = Node { hist, obs, past };
        if o.dead() || snap.is_none() {
            sess.close();
            return Ok(());
        }
        if node.hist.len() < self.max_len {
            self.children(&node, sess)?;
        } else {
            // leaf: observe the flowing value directly (the session is discarded afterwards)
            let p = sess.eval("~");
            self.out.probes += 1;
            if !node.past.nil_seen && p != Obs::Value(sess.last.clone()) {
                self.out.failing.push((
                    "flow",
                    node.hist.clone(),
                    Fail {
                        class: "flow",
                        sub: String::new(),
                        at: node.hist.len() - 1,
                        observed: format!("a following line `~` yields {}", p.show()),
                        expected: format!("the previous result {}", sess.last),
                    },
                ));
            }
            sess.close();
        }
        Ok(())
    }
}

fn hist_lines(h: &[u8]) -> Vec<String> {
    h.iter().map(|c| ALPHABET[*c as usize].to_string()).collect()
}

// watchdog: a unit of work that makes no progress for a long time is a hang in repository code
static WATCH: Mutex<Vec<(u64, std::time::Instant, String)>> = Mutex::new(Vec::new());

fn watch_begin(id: u64, what: String) {
    let mut w = WATCH.lock().unwrap();
    w.retain(|e| e.0 != id);
    w.push((id, std::time::Instant::now(), what));
}

fn watch_end(id: u64) {
    WATCH.lock().unwrap().retain(|e| e.0 != id);
}

fn start_watchdog(limit_s: u64) {
    std::thread::spawn(move || loop {
        std::thread::sleep(std::time::Duration::from_secs(5));
        let w = WATCH.lock().unwrap();
        for (_, t, what) in w.iter() {
            if t.elapsed().as_secs() > limit_s {
                eprintln!("machinery: C11 unit of work made no progress for {} s (hang in repository code?): {}", limit_s, what);
                std::process::exit(2);
            }
        }
    });
}

struct PartA {
    out: SliceOut,
    capped_slices: usize,
    slices: usize,
}

fn part_a(max_len: usize, budget: &Budget) -> Result<PartA, String> {
    // the shallow levels, sequentially
    let split = 2.min(max_len);
    let root = Node {
        hist: vec![],
        obs: vec![],
        past: Past::default(),
    };
    let mut top = Dfs {
        max_len: split,
        one: OnePiece::new(Mode::Sync),
        out: SliceOut::default(),
        budget,
        capped: false,
    };
    watch_begin(0, "shallow levels".into());
    let s = Sess::new()?;
    top.out.sessions += 1;
    top.children(&root, s)?;
    watch_end(0);
    let mut total = top.out;
    total.onepiece_runs += top.one.runs;
    // leaves of the shallow pass were probed with `~`; deeper passes re-enter them by replay
    if max_len <= split {
        return Ok(PartA {
            out: total,
            capped_slices: 0,
            slices: 0,
        });
    }
    // every prefix of length `split` is one slice
    let n = ALPHABET.len();
    let mut prefixes: Vec<Vec<u8>> = vec![];
    for a in 0..n {
        for b in 0..n {
            prefixes.push(vec![a as u8, b as u8]);
        }
    }
    let rot = (crate::infra::seed().unsigned_abs() as usize) % prefixes.len();
    prefixes.rotate_left(rot);
    let results: Vec<Result<(SliceOut, bool), String>> = prefixes
        .par_iter()
        .enumerate()
        .map(|(idx, prefix)| {
            if budget.exhausted() {
                return Ok((SliceOut::default(), true));
            }
            let id = idx as u64 + 1;
            watch_begin(id, format!("histories starting {:?}", hist_lines(prefix)));
            let mut d = Dfs {
                max_len,
                one: OnePiece::new(Mode::Sync),
                out: SliceOut::default(),
                budget,
                capped: false,
            };
            // rebuild the prefix node (its own judgement happened in the shallow pass)
            let mut sess = Sess::new()?;
            d.out.sessions += 1;
            let mut node = Node {
                hist: vec![],
                obs: vec![],
                past: Past::default(),
            };
            let mut dead = false;
            for &c in prefix {
                let line = ALPHABET[c as usize];
                let o = sess.eval(line);
                d.out.replayed += 1;
                node.hist.push(c);
                node.past.advance(line, &o);
                dead |= o.dead();
                node.obs.push(o);
            }
            if dead || sess.s.is_none() {
                sess.close();
            } else {
                d.children(&node, sess)?;
            }
            d.out.onepiece_runs += d.one.runs;
            watch_end(id);
            Ok((d.out, d.capped))
        })
        .collect();
    let mut capped_slices = 0;
    // merge in canonical prefix order
    let mut indexed: Vec<(Vec<u8>, (SliceOut, bool))> = vec![];
    for (p, r) in prefixes.iter().zip(results) {
        indexed.push((p.clone(), r?));
    }
    indexed.sort_by(|a, b| a.0.cmp(&b.0));
    let mut merged_slices = 0usize;
    for (_, (o, capped)) in indexed {
        if capped {
            capped_slices += 1;
        }
        total.nodes.extend(o.nodes);
        for (k, v) in o.by_depth {
            *total.by_depth.entry(k).or_insert(0) += v;
        }
        total.states.extend(o.states);
        total.counters.merge(&o.counters);
        total.replayed += o.replayed;
        total.sessions += o.sessions;
        total.onepiece_runs += o.onepiece_runs;
        total.failing.extend(o.failing);
        total.probes += o.probes;
        // a few slices spread over the alphabet contribute one sample each
        if total.samples.len() < 4 && total.samples.len() * 70 <= merged_slices {
            total.samples.extend(o.samples.into_iter().take(1));
        }
        merged_slices += 1;
    }
    Ok(PartA {
        out: total,
        capped_slices,
        slices: prefixes.len(),
    })
}

/// A line that is a top-level tail call binds nothing and must leave every binding in place: for
/// every ordered pair (a, b) of alphabet lines that do not read the previous result, the session
/// a, TAIL_DEF, TAIL_LINE, b ends with the variables (and b with the observation) of the session
/// a, TAIL_DEF, b. Returns (pairs checked, failures as (lines, observed, expected)).
fn tail_call_pass() -> Result<(u64, Vec<(Vec<String>, String, String)>), String> {
    let reads_previous = |l: &str| l == "~" || l.starts_with("{ |");
    let lines: Vec<&str> = ALPHABET.iter().copied().filter(|l| !reads_previous(l)).collect();
    let pairs: Vec<(&str, &str)> = lines.iter().flat_map(|a| lines.iter().map(move |b| (*a, *b))).collect();
    let results: Vec<Result<Option<(Vec<String>, String, String)>, String>> = pairs
        .par_iter()
        .map(|(a, b)| {
            crate::sim::system::install_panic_recorder();
            // the tail-call line entered `tails` times in a row (0 = the control session)
            let run = |tails: usize| -> Result<(Obs, Option<Snap>, Vec<Obs>), String> {
                let mut s = Sess::new()?;
                s.eval(a);
                s.eval(TAIL_DEF);
                let t: Vec<Obs> = (0..tails).map(|_| s.eval(TAIL_LINE)).collect();
                let o = s.eval(b);
                let snap = s.snapshot().ok();
                s.close();
                Ok((o, snap, t))
            };
            let (o0, s0, _) = run(0)?;
            let vars = |s: &Option<Snap>| s.as_ref().map(|s| format!("{:?}", s.vars)).unwrap_or_else(|| "<unreadable>".into());
            for tails in [1usize, 2] {
                let (o1, s1, t) = run(tails)?;
                let mut hist = vec![a.to_string(), TAIL_DEF.to_string()];
                hist.extend((0..tails).map(|_| TAIL_LINE.to_string()));
                hist.push(b.to_string());
                if let Some(bad) = t.iter().find(|t| **t != Obs::Value("9".into())) {
                    return Ok(Some((hist, format!("a tail-call line yields {}", bad.show()), "9".into())));
                }
                if o1 != o0 || vars(&s1) != vars(&s0) {
                    return Ok(Some((
                        hist,
                        format!("last line yields {}, variables {}", o1.show(), vars(&s1)),
                        format!("{} and {} (the same session without the tail-call lines)", o0.show(), vars(&s0)),
                    )));
                }
            }
            Ok(None)
        })
        .collect();
    let mut fails = vec![];
    for r in results {
        if let Some(f) = r? {
            fails.push(f);
        }
    }
    Ok((pairs.len() as u64, fails))
}

/// Restarted sessions: after a runtime error the CLI builds a fresh Repl on the same, used
/// Environment. Whatever the first session did, the restarted one must behave like a session on
/// a fresh environment: for every first session of <= 2 lines of RESTART_LINES followed by a
/// failing line, and every second session of <= 3 lines, each line's observation and the final
/// variables equal those of the second session alone. Returns (pairs, failures).
const RESTART_LINES: &[&str] = &["a = 1", "b = 2", "c = 0", "d = 2", "[1, 2, 0]", "e = [0xaa, 0x01] __binary_concat__", "h = A[2, \"s\"]"];
const RESTART_ERROR_LINE: &str = "[1, 0] __integer_divide__";

fn restart_pass(thorough: bool) -> Result<(u64, Vec<(Vec<String>, String, String)>), String> {
    let seqs = |max: usize| -> Vec<Vec<&'static str>> {
        let mut out: Vec<Vec<&'static str>> = vec![vec![]];
        let mut layer: Vec<Vec<&'static str>> = vec![vec![]];
        for _ in 0..max {
            let mut next = vec![];
            for p in &layer {
                for l in RESTART_LINES {
                    let mut q = p.clone();
                    q.push(*l);
                    next.push(q);
                }
            }
            out.extend(next.iter().cloned());
            layer = next;
        }
        out
    };
    let firsts = seqs(2);
    let seconds: Vec<Vec<&'static str>> = seqs(if thorough { 4 } else { 3 }).into_iter().filter(|s| !s.is_empty()).collect();
    // reference: each second session on a fresh environment
    let reference: Vec<Result<(Vec<Obs>, String), String>> = seconds
        .par_iter()
        .map(|lines| {
            crate::sim::system::install_panic_recorder();
            let mut s = Sess::new()?;
            let obs: Vec<Obs> = lines.iter().map(|l| s.eval(l)).collect();
            let vars = s.snapshot().map(|x| format!("{:?}", x.vars)).unwrap_or_else(|_| "<unreadable>".into());
            s.close();
            Ok((obs, vars))
        })
        .collect();
    let mut refs = vec![];
    for r in reference {
        refs.push(r?);
    }
    let results: Vec<Result<Vec<(Vec<String>, String, String)>, String>> = firsts
        .par_iter()
        .map(|first| {
            crate::sim::system::install_panic_recorder();
            let mut fails = vec![];
            for (k, second) in seconds.iter().enumerate() {
                let mut s = Sess::new()?;
                for l in first {
                    s.eval(l);
                }
                let e = s.eval(RESTART_ERROR_LINE);
                if !matches!(e, Obs::Runtime(_)) {
                    s.close();
                    return Err(format!("the failing line of the restart pass yields {}", e.show()));
                }
                if let Some(inner) = s.s.as_mut() {
                    inner.restart_repl()?;
                }
                s.last = "[]".into();
                let obs: Vec<Obs> = second.iter().map(|l| s.eval(l)).collect();
                let vars = s.snapshot().map(|x| format!("{:?}", x.vars)).unwrap_or_else(|_| "<unreadable>".into());
                s.close();
                let (ro, rv) = &refs[k];
                if &obs != ro || &vars != rv {
                    let mut hist: Vec<String> = first.iter().map(|l| l.to_string()).collect();
                    hist.push(RESTART_ERROR_LINE.to_string());
                    hist.push("<restart>".to_string());
                    hist.extend(second.iter().map(|l| l.to_string()));
                    fails.push((
                        hist,
                        format!("{:?} / {}", obs.iter().map(|o| o.show()).collect::<Vec<_>>(), vars),
                        format!("{:?} / {} (the same lines on a fresh environment)", ro.iter().map(|o| o.show()).collect::<Vec<_>>(), rv),
                    ));
                    if fails.len() >= 3 {
                        break;
                    }
                }
            }
            Ok(fails)
        })
        .collect();
    let mut fails = vec![];
    for r in results {
        fails.extend(r?);
    }
    // shortest first
    fails.sort_by_key(|f| f.0.len());
    Ok(((firsts.len() * seconds.len()) as u64, fails))
}

/// Clause 2 over the whole table: a history with rejected lines must end in the same observable
/// state (and, if its last line was accepted, the same last result) as the history without them —
/// which is itself a member of the universe.
fn rejected_line_pass(out: &mut SliceOut) -> (u64, u64) {
    let mut clean: HashMap<u64, (u64, u128)> = HashMap::new();
    for n in &out.nodes {
        if !n.has_rejected && n.readable {
            clean.insert(n.key, (n.outcome, n.state));
        }
    }
    // the empty history
    let mut checked = 0u64;
    let mut missing = 0u64;
    let empty_state = h128(
        &Snap {
            vars: vec![],
            last: "[]".into(),
        }
        .text(),
    );
    let mut failing = vec![];
    for n in &out.nodes {
        if !n.has_rejected || !n.readable {
            continue;
        }
        let reference = if n.clean_key == 0 {
            Some((0u64, empty_state))
        } else {
            clean.get(&n.clean_key).copied()
        };
        let Some((o, s)) = reference else {
            missing += 1;
            continue;
        };
        checked += 1;
        let bad = s != n.state || (!n.last_rejected && o != n.outcome);
        if bad {
            failing.push(n.key);
        }
    }
    // the same clause, line by line: a line entered after rejected lines behaves (value, error,
    // state) exactly as it does in the history without them — also when it is rejected itself
    // (a rejected line that makes a later, otherwise fine line fail would escape the comparison
    // above, which drops every rejected line)
    let mut all: HashMap<u64, (u64, u128)> = HashMap::new();
    for n in &out.nodes {
        if n.readable {
            all.insert(n.key, (n.outcome, n.state));
        }
    }
    for n in &out.nodes {
        if n.prefix_clean_key == 0 || !n.readable {
            continue;
        }
        let Some((o, s)) = all.get(&n.prefix_clean_key).copied() else {
            missing += 1;
            continue;
        };
        checked += 1;
        if (s != n.state || o != n.outcome) && !failing.contains(&n.key) {
            failing.push(n.key);
        }
    }
    for k in failing {
        let hist = unkey(k);
        out.failing.push((
            "rejected-line",
            hist.clone(),
            Fail {
                class: "rejected-line",
                sub: String::new(),
                at: hist.len() - 1,
                observed: "result/state differs from the same history without its rejected lines".into(),
                expected: "identical".into(),
            },
        ));
    }
    (checked, missing)
}

fn unkey(mut k: u64) -> Vec<u8> {
    let b = ALPHABET.len() as u64 + 1;
    let mut v = vec![];
    while k > 0 {
        v.push((k % b - 1) as u8);
        k /= b;
    }
    v.reverse();
    v
}

/// From all failing histories of one class keep those none of whose one-line-shorter
/// sub-histories fails in the same class (all of them are in the universe), then shrink each by
/// replacement and confirm it in isolation.
fn cores(
    failing: &[(&'static str, Vec<u8>, Fail)],
    cap_per_class: usize,
) -> Result<(Vec<Violation>, J), String> {
    let mut by_class: BTreeMap<(&'static str, String), BTreeSet<Vec<u8>>> = BTreeMap::new();
    for (c, h, f) in failing {
        by_class.entry((*c, f.sub.clone())).or_default().insert(h.clone());
    }
    let mut violations: BTreeMap<String, Violation> = BTreeMap::new();
    let mut stats = serde_json::Map::new();
    for ((class, sub), set) in &by_class {
        let mut minimal: Vec<Vec<u8>> = vec![];
        for h in set {
            let mut has_smaller = false;
            for i in 0..h.len() {
                let mut g = h.clone();
                g.remove(i);
                if set.contains(&g) {
                    has_smaller = true;
                    break;
                }
            }
            if !has_smaller {
                minimal.push(h.clone());
            }
        }
        // shortest first, then enumeration order
        minimal.sort_by(|a, b| a.len().cmp(&b.len()).then(a.cmp(b)));
        let considered = minimal.len().min(cap_per_class);
        let shrunk: Vec<Result<(String, Violation), String>> = minimal[..considered]
            .par_iter()
            .map(|h| {
                let lines = hist_lines(h);
                let j = judge(&lines, Mode::Sync)?;
                if !j.fails.iter().any(|f| f.class == *class && f.sub == *sub) {
                    return Err(format!(
                        "C11: enumerator reported a {}({}) failure for {:?} that does not reproduce in isolation",
                        class, sub, lines
                    ));
                }
                violation_from(&lines, class, sub, Mode::Sync, None)
            })
            .collect();
        for r in shrunk {
            let (sig, v) = r?;
            violations.entry(sig).or_insert(v);
        }
        stats.insert(
            if sub.is_empty() { class.to_string() } else { format!("{}({})", class, sub) },
            json!({"failing_histories": set.len(), "drop_minimal": minimal.len(), "shrunk": considered}),
        );
    }
    Ok((violations.into_values().collect(), J::Object(stats)))
}

/// Shrink a failing history and package it.
fn violation_from(
    lines: &[String],
    class: &'static str,
    sub: &str,
    mode: Mode,
    from_program: Option<&str>,
) -> Result<(String, Violation), String> {
    let core = shrink(lines, class, sub, mode)?;
    let jj = judge(&core, mode)?;
    let f = jj
        .fails
        .iter()
        .find(|f| f.class == class && f.sub == sub)
        .cloned()
        .ok_or_else(|| format!("C11: {}({}) failure of {:?} does not reproduce in isolation", class, sub, lines))?;
    let sig = signature(class, sub, &core);
    Ok((
        sig.clone(),
        Violation {
            signature: sig,
            summary: format!(
                "history {:?}{}: at line {} ({:?}) observed {} — expected {}",
                core,
                from_program.map(|p| format!(" (from corpus program {})", p)).unwrap_or_default(),
                f.at + 1,
                core.get(f.at).cloned().unwrap_or_default(),
                f.observed,
                f.expected
            ),
            replay: json!({"engine": "c11", "mode": if mode == Mode::Sync { "sync" } else { "session" }, "class": class, "sub": sub, "lines": core, "found_as": lines}),
        },
    ))
}

// ------------------------------------------------------------------------------------------------
// Part B: every cut of every corpus program

#[derive(Default)]
struct CorpusOut {
    programs_used: u64,
    cuts: u64,
    lines: u64,
    counters: Counters,
    states: HashSet<u128>,
    skipped: Vec<String>,
    failing: Vec<(String, Vec<String>, Fail)>,
    samples: Vec<J>,
    onepiece_runs: u64,
    capped: u64,
    per_program: Vec<J>,
}

fn cut_lines(steps: &[String], mask: u32) -> Vec<String> {
    // bit i set = a line break after step i
    let mut lines = vec![];
    let mut cur: Vec<&str> = vec![];
    for (i, s) in steps.iter().enumerate() {
        cur.push(s);
        if i + 1 == steps.len() || mask & (1 << i) != 0 {
            lines.push(cur.join(", "));
            cur.clear();
        }
    }
    lines
}

fn run_cut(lines: &[String], one: &mut OnePiece, c: &mut Counters, states: &mut HashSet<u128>) -> Result<(Vec<Obs>, Vec<Fail>), String> {
    let mut sess = Sess::new()?;
    let mut past = Past::default();
    let mut obs = vec![];
    let mut fails = vec![];
    for (i, l) in lines.iter().enumerate() {
        let (o, f, s) = step(&mut sess, &past, l, i, one, c);
        fails.extend(f);
        past.advance(l, &o);
        if let Some(s) = &s {
            states.insert(h128(&s.text()));
        }
        let dead = o.dead();
        obs.push(o);
        if dead || s.is_none() {
            break;
        }
    }
    sess.close();
    Ok((obs, fails))
}

fn part_b(budget: &Budget) -> Result<CorpusOut, String> {
    let programs = corpus()?;
    let results: Vec<Result<CorpusOut, String>> = programs
        .par_iter()
        .enumerate()
        .map(|(pi, p)| {
            let mut out = CorpusOut::default();
            let id = 10_000 + pi as u64;
            watch_begin(id, format!("corpus program {}", p.id));
            let mut one = OnePiece::new(Mode::FreshSession);
            // the program must be a program: its steps, comma-separated, parse, compile and run to a
            // value in one piece, and every step parses alone. (The NEWLINE-joined form — comma and
            // newline are synonyms — is what each cut is compared with, prefix by prefix.)
            let whole = one.eval(&p.steps.join(", "));
            let steps_parse = p.steps.iter().all(|s| parses(s));
            if !matches!(whole, One::Value(_)) || !steps_parse || p.steps.len() < 2 || p.steps.len() > 12 {
                out.skipped.push(format!("{}: one-piece = {}, steps parse alone = {}", p.id, whole.show(), steps_parse));
                watch_end(id);
                return Ok(out);
            }
            out.programs_used = 1;
            let k = p.steps.len();
            let mut failing_here = 0u64;
            for mask in 0..(1u32 << (k - 1)) {
                if budget.exhausted() {
                    out.capped += 1;
                    continue;
                }
                let lines = cut_lines(&p.steps, mask);
                watch_begin(id, format!("corpus program {} cut {:b}", p.id, mask));
                let (obs, fails) = run_cut(&lines, &mut one, &mut out.counters, &mut out.states)?;
                out.cuts += 1;
                out.lines += obs.len() as u64;
                // the session must accept what the program accepts: a rejected line here is a
                // line of a valid program — counted by `step`, reported below
                for f in fails {
                    failing_here += 1;
                    out.failing.push((p.id.clone(), lines.clone(), f));
                }
                if out.samples.is_empty() && mask == (1u32 << (k - 1)) - 1 {
                    out.samples.push(json!({
                        "program": p.id, "origin": p.origin, "cut": "one step per line",
                        "lines": lines, "repl": obs.iter().map(|o| o.show()).collect::<Vec<_>>(),
                        "one_piece_value": whole.show(),
                    }));
                }
            }
            out.per_program.push(json!({"id": p.id, "steps": k, "cuts": 1u64 << (k - 1), "failing_line_checks": failing_here}));
            out.onepiece_runs = one.runs;
            watch_end(id);
            Ok(out)
        })
        .collect();
    let mut total = CorpusOut::default();
    for r in results {
        let o = r?;
        total.programs_used += o.programs_used;
        total.cuts += o.cuts;
        total.lines += o.lines;
        total.counters.merge(&o.counters);
        total.states.extend(o.states);
        total.skipped.extend(o.skipped);
        total.failing.extend(o.failing);
        if total.samples.len() < 3 {
            total.samples.extend(o.samples);
        }
        total.onepiece_runs += o.onepiece_runs;
        total.capped += o.capped;
        total.per_program.extend(o.per_program);
    }
    Ok(total)
}

/// Corpus failures: shrink by dropping/replacing lines (in fresh-session mode), signature = core.
fn corpus_violations(failing: &[(String, Vec<String>, Fail)], cap: usize) -> Result<(Vec<Violation>, J), String> {
    // one representative per (program, class, sub): the cut with the fewest lines, then lexicographic
    let mut reps: BTreeMap<(String, &'static str, String), Vec<String>> = BTreeMap::new();
    for (p, lines, f) in failing {
        let e = reps
            .entry((p.clone(), f.class, f.sub.clone()))
            .or_insert_with(|| lines.clone());
        if (lines.len(), &*lines) < (e.len(), &*e) {
            *e = lines.clone();
        }
    }
    let list: Vec<((String, &'static str, String), Vec<String>)> = reps.into_iter().take(cap).collect();
    let shrunk: Vec<Result<(String, Violation), String>> = list
        .par_iter()
        .map(|((p, class, sub), lines)| violation_from(lines, class, sub, Mode::FreshSession, Some(p)))
        .collect();
    let mut out: BTreeMap<String, Violation> = BTreeMap::new();
    for r in shrunk {
        let (s, v) = r?;
        out.entry(s).or_insert(v);
    }
    let stats = json!({"failing_line_checks": failing.len(), "representatives_shrunk": list.len()});
    Ok((out.into_values().collect(), stats))
}

// ------------------------------------------------------------------------------------------------

pub fn run(tier: Tier) -> Result<Report, String> {
    // the compiler recurses on types; give every worker thread a roomy stack (virtual memory only)
    let pool = rayon::ThreadPoolBuilder::new()
        .stack_size(256 << 20)
        .build()
        .map_err(|e| format!("rayon pool: {}", e))?;
    pool.install(|| run_inner(tier))
}

fn run_inner(tier: Tier) -> Result<Report, String> {
    let thorough = tier == Tier::Thorough;
    let max_len = if thorough { 5 } else { 4 };
    WIDE_LEN.store(if thorough { 4 } else { 3 }, std::sync::atomic::Ordering::Relaxed);
    // separate budgets so that a slow part A cannot starve the corpus
    // C11_BUDGET_SCALE (testing on a loaded machine only) stretches the wall-clock caps
    let scale: f64 = std::env::var("C11_BUDGET_SCALE").ok().and_then(|s| s.parse().ok()).unwrap_or(1.0);
    let budget = Budget::new(scale * if thorough { 8.0 * 60.0 } else { 16.0 });
    start_watchdog(if thorough { 300 } else { 60 });

    let verbose = std::env::var_os("C11_TIMING").is_some();
    let mut a = part_a(max_len, &budget)?;
    if verbose {
        eprintln!("c11: part A done at {:.1}s", budget.elapsed());
    }
    let (rej_checked, rej_missing) = rejected_line_pass(&mut a.out);
    let budget_b = Budget::new(scale * if thorough { 120.0 } else { 8.0 });
    let b = part_b(&budget_b)?;
    if verbose {
        eprintln!("c11: part B done after {:.1}s", budget_b.elapsed());
    }

    let (mut violations, core_stats) = cores(&a.out.failing, 600)?;
    let (vb, corpus_stats) = corpus_violations(&b.failing, 200)?;
    if verbose {
        eprintln!("c11: shrinking done at {:.1}s", budget.elapsed());
    }
    let seen: HashSet<String> = violations.iter().map(|v| v.signature.clone()).collect();
    for v in vb {
        if !seen.contains(&v.signature) {
            violations.push(v);
        }
    }
    // restarted sessions (differential; see restart_pass)
    let (restart_pairs, restart_fails) = restart_pass(thorough)?;
    for (lines, observed, expected) in restart_fails.into_iter().take(8) {
        violations.push(Violation {
            signature: signature("restarted-session", "", &lines),
            summary: format!("history {:?}: observed {} — expected {}", lines, observed, expected),
            replay: json!({"engine": "c11", "kind": "restarted-session", "lines": lines}),
        });
    }
    // top-level tail-call lines (differential; see tail_call_pass)
    let (tail_pairs, tail_fails) = tail_call_pass()?;
    for (lines, observed, expected) in tail_fails.into_iter().take(12) {
        violations.push(Violation {
            signature: signature("tail-call-line", "", &lines),
            summary: format!("history {:?}: observed {} — expected {}", lines, observed, expected),
            replay: json!({"engine": "c11", "kind": "tail-call-line", "lines": lines}),
        });
    }

    let mut states = a.out.states.clone();
    states.extend(b.states.iter().copied());
    let histories: u64 = a.out.by_depth.values().sum();
    let expected_histories: u64 = universe_size(max_len);
    let caps_hit = a.capped_slices > 0 || b.capped > 0;
    let mut kinds = a.out.counters.kinds.clone();
    for (k, v) in &b.counters.kinds {
        *kinds.entry(k.clone()).or_insert(0) += v;
    }
    let mut samples = a.out.samples.clone();
    samples.extend(b.samples.clone());
    // one sample with the one-piece values written out
    if let Ok(j) = judge(&hist_lines(&[0, 5, 6, 15]), Mode::Sync) {
        let mut one = OnePiece::new(Mode::Sync);
        let lines = hist_lines(&[0, 5, 6, 15]);
        let mut ones = vec![];
        for i in 0..lines.len() {
            ones.push(one.eval(&lines[..=i].join("\n")).show());
        }
        samples.push(json!({"history": lines, "repl": j.obs.iter().map(|o| o.show()).collect::<Vec<_>>(), "one_piece_prefix_programs": ones}));
    }

    let coverage = json!({
        "states": states.len(),
        "transitions": a.out.counters.transitions + b.counters.transitions,
        "traces_validated_against_impl": a.out.counters.compared + b.counters.compared,
        "exhaustive": !caps_hit,
        "caps_hit": if caps_hit { json!({"alphabet_slices_skipped_or_cut": a.capped_slices, "of": a.slices, "corpus_cuts_skipped": b.capped, "budget_s": {"alphabet": if thorough {480} else {16}, "corpus": if thorough {120} else {8}}}) } else { J::Null },
        "alphabet": ALPHABET,
        "max_history_length": max_len,
        "max_history_length_over_the_whole_alphabet": WIDE_LEN.load(std::sync::atomic::Ordering::Relaxed),
        "core_lines": CORE_LINES,
        "histories": {"visited": histories, "universe": expected_histories, "by_length": a.out.by_depth,
            "note": "histories whose prefix killed the session (runtime error) are not extended; none of the alphabet's lines can raise one"},
        "line_outcomes": kinds,
        "replayed_line_evaluations": a.out.replayed,
        "sessions_created": a.out.sessions,
        "one_piece_programs_run": a.out.onepiece_runs + b.onepiece_runs,
        "value_comparisons_using_hoisted_type_definitions": a.out.counters.compared_hoisted + b.counters.compared_hoisted,
        "rejected_line_checks": {"histories_with_rejected_lines_compared_to_their_clean_history": rej_checked, "clean_history_not_visited": rej_missing},
        "flow_probes_at_leaves": a.out.probes,
        "tail_call_line_pairs": tail_pairs,
        "restarted_session_pairs": restart_pairs,
        "variable_value_comparisons": {"compared_with_one_piece": a.out.counters.vars_compared + b.counters.vars_compared,
            "one_piece_probe_program_not_runnable": a.out.counters.vars_not_comparable + b.counters.vars_not_comparable},
        "not_judged": {
            "lines_after_a_nil_line": a.out.counters.not_judged_after_nil + b.counters.not_judged_after_nil,
            "repl_rejects_line_one_piece_accepts": a.out.counters.repl_rejects_onepiece_accepts + b.counters.repl_rejects_onepiece_accepts,
            "repl_rejects_line_one_piece_rejects_too": a.out.counters.repl_rejects_onepiece_rejects + b.counters.repl_rejects_onepiece_rejects,
            "samples_repl_stricter": a.out.counters.stricter_samples.values().chain(b.counters.stricter_samples.values()).take(12).collect::<Vec<_>>(),
        },
        "corpus": {"programs": b.programs_used, "cuts": b.cuts, "lines_evaluated": b.lines, "skipped": b.skipped, "per_program": b.per_program, "failures": corpus_stats},
        "failing_histories_by_class": core_stats,
        "samples": samples,
        "explanation": "States are real REPL sessions (Repl + Environment + 2 workers, default schedule). Part A visits every history of <= max_history_length lines over `alphabet` depth-first; a session cannot be forked, so each node is reached by replaying its prefix in a fresh session (replayed lines are re-checked for determinism but not re-judged). `transitions` counts judged line evaluations (one per history node / corpus line), `states` the distinct observable states (variables() names+types, request_variable value of each, flowing result) - used for counting, never for pruning. `traces_validated_against_impl` counts lines whose value was compared with the one-piece program `line1 NL .. NL linei` (qcompile + execute_bytecode_sync for part A; a fresh session evaluating the joined text as one line for the corpus, which contains processes). After every accepted line the value request_variable reports for every bound variable is also compared with the one-piece program extended by one observing step `[&v1, &v2, ..]` (`variable_value_comparisons`). A line the session rejects with VariableUndefined/TypeAliasMissing although the one-piece program resolves its names is a violation (`scope`); other rejections of lines the one-piece program accepts are the session's static typing being stricter (nil kept in the flowing value's type, flow-narrowing not carried across lines) and are counted, not judged. Clause 2 (a rejected line leaves the session as it was) is checked for every history with a rejected line against the table entry of the history without it, which is itself in the universe; at leaves the flowing value is additionally observed with a `~` line. Heap accounting (check_refcounts, free-list consistency) is asserted on every worker after every judged line. Failing histories are reduced to those with no failing one-line-shorter sub-history (a table lookup), then shrunk by replacement and confirmed in isolation; signature = class(sub-class): minimal line list.",
    });

    Ok(Report {
        property: "C11",
        level: "model_checking",
        coverage,
        assumptions: vec![
            "a session is driven on the simulator's default schedule only (2 workers, quantum 1000); schedule non-determinism is C03/C04's subject".into(),
            "function and builtin values are compared up to their program-table index (the REPL's accumulated program numbers them differently by construction); references only as 'is a reference'".into(),
            "when the exact one-piece program is rejected because a type definition follows a step (reported as its own violation class), values are compared with the program that has the type-definition lines moved to the front — the spec calls them transparent to the flow".into(),
            "histories are bounded in length and drawn from a fixed alphabet / fixed corpus".into(),
        ],
        violations,
    })
}

pub fn replay(replay: &J) -> Result<bool, String> {
    let lines: Vec<String> = replay["lines"]
        .as_array()
        .ok_or("replay: no lines")?
        .iter()
        .filter_map(|l| l.as_str().map(String::from))
        .collect();
    if replay["kind"].as_str() == Some("restarted-session") {
        let cut = lines.iter().position(|l| l == "<restart>").ok_or("no <restart> marker")?;
        let (first, second) = (&lines[..cut], &lines[cut + 1..]);
        let mut s = Sess::new()?;
        for l in first {
            s.eval(l);
        }
        if let Some(inner) = s.s.as_mut() {
            inner.restart_repl()?;
        }
        let obs: Vec<Obs> = second.iter().map(|l| s.eval(l)).collect();
        let vars = s.snapshot().map(|x| format!("{:?}", x.vars)).unwrap_or_else(|_| "<unreadable>".into());
        s.close();
        let mut r = Sess::new()?;
        let ro: Vec<Obs> = second.iter().map(|l| r.eval(l)).collect();
        let rv = r.snapshot().map(|x| format!("{:?}", x.vars)).unwrap_or_else(|_| "<unreadable>".into());
        r.close();
        println!("  restarted: {:?} / {}\n  fresh:     {:?} / {}", obs.iter().map(|o| o.show()).collect::<Vec<_>>(), vars, ro.iter().map(|o| o.show()).collect::<Vec<_>>(), rv);
        return Ok(obs != ro || vars != rv);
    }
    if replay["kind"].as_str() == Some("tail-call-line") {
        // lines = [a, TAIL_DEF, TAIL_LINE, b]
        if lines.len() != 4 {
            return Err("tail-call-line replay needs four lines".into());
        }
        let run = |with_tail: bool| -> Result<(Obs, String), String> {
            let mut s = Sess::new()?;
            s.eval(&lines[0]);
            s.eval(&lines[1]);
            if with_tail {
                s.eval(&lines[2]);
            }
            let o = s.eval(&lines[3]);
            let v = s.snapshot().map(|s| format!("{:?}", s.vars)).unwrap_or_else(|_| "<unreadable>".into());
            s.close();
            Ok((o, v))
        };
        let (o1, v1) = run(true)?;
        let (o0, v0) = run(false)?;
        println!("  with the tail-call line: {} / {}\n  without it: {} / {}", o1.show(), v1, o0.show(), v0);
        return Ok(o1 != o0 || v1 != v0);
    }
    let class = replay["class"].as_str().unwrap_or("");
    let sub = replay["sub"].as_str().unwrap_or("");
    let mode = if replay["mode"].as_str() == Some("session") {
        Mode::FreshSession
    } else {
        Mode::Sync
    };
    let j = judge(&lines, mode)?;
    let mut one = OnePiece::new(mode);
    let mut past = Past::default();
    for (i, l) in lines.iter().enumerate() {
        let o = j.obs.get(i);
        let shown = o.map(|o| o.show()).unwrap_or_else(|| "<not reached>".into());
        let mut reference = match o {
            Some(Obs::Value(_)) | Some(Obs::Runtime(_)) => {
                let r = one.eval(&past.exact(l));
                let mut text = r.show();
                if r.rejected() {
                    if let Some(h) = past.hoisted(l) {
                        text.push_str(&format!(
                            "\n      one piece, type definitions moved to the front: {}",
                            one.eval(&h).show()
                        ));
                    }
                }
                text
            }
            _ => "-".into(),
        };
        if past.nil_seen {
            reference.push_str("   (an earlier line was nil: not judged)");
        }
        if let Some(o) = o {
            past.advance(l, o);
        }
        println!("  line {}: {:?}\n      session  : {}\n      one piece: {}", i + 1, l, shown, reference);
    }
    let mut still = false;
    for f in &j.fails {
        println!("  FAIL [{}] at line {}: observed {} — expected {}", f.class, f.at + 1, f.observed, f.expected);
        if (f.class == class && (sub.is_empty() || f.sub == sub)) || class.is_empty() {
            still = true;
        }
    }
    Ok(still)
}
