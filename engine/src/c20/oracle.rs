//! Host-side exact arithmetic for C20: rationals on `BigInt`, members of Q(sqrt n), the number
//! *representations* of `std/num.qv` (`Val`), and the documented result of every exported
//! operation (`expect_op`). Nothing here calls into the repository.

use num_bigint::BigInt;
use num_integer::Integer;
use num_traits::{One, Signed, Zero};
use std::cmp::Ordering;

// ------------------------------------------------------------------------------------------
// Q: exact rationals, always canonical (d > 0, gcd 1)
// ------------------------------------------------------------------------------------------

#[derive(Clone, Debug, PartialEq, Eq, Hash)]
pub struct Q {
    pub n: BigInt,
    pub d: BigInt,
}

impl Q {
    pub fn new(n: BigInt, d: BigInt) -> Q {
        assert!(!d.is_zero(), "Q::new with zero denominator");
        let (mut n, mut d) = (n, d);
        if d.is_negative() {
            n = -n;
            d = -d;
        }
        let g = n.gcd(&d);
        if !g.is_one() && !g.is_zero() {
            n = n / &g;
            d = d / &g;
        }
        Q { n, d }
    }
    pub fn int(n: BigInt) -> Q {
        Q { n, d: BigInt::one() }
    }
    pub fn from_i64(n: i64) -> Q {
        Q::int(BigInt::from(n))
    }
    pub fn zero() -> Q {
        Q::from_i64(0)
    }
    pub fn is_zero(&self) -> bool {
        self.n.is_zero()
    }
    pub fn is_int(&self) -> bool {
        self.d.is_one()
    }
    pub fn sign(&self) -> i32 {
        if self.n.is_zero() {
            0
        } else if self.n.is_negative() {
            -1
        } else {
            1
        }
    }
    pub fn add(&self, o: &Q) -> Q {
        Q::new(&self.n * &o.d + &o.n * &self.d, &self.d * &o.d)
    }
    pub fn sub(&self, o: &Q) -> Q {
        Q::new(&self.n * &o.d - &o.n * &self.d, &self.d * &o.d)
    }
    pub fn mul(&self, o: &Q) -> Q {
        Q::new(&self.n * &o.n, &self.d * &o.d)
    }
    pub fn div(&self, o: &Q) -> Option<Q> {
        if o.is_zero() {
            None
        } else {
            Some(Q::new(&self.n * &o.d, &self.d * &o.n))
        }
    }
    pub fn neg(&self) -> Q {
        Q {
            n: -&self.n,
            d: self.d.clone(),
        }
    }
    pub fn cmp(&self, o: &Q) -> Ordering {
        (&self.n * &o.d).cmp(&(&o.n * &self.d))
    }
    pub fn floor(&self) -> BigInt {
        self.n.div_floor(&self.d)
    }
}

// ------------------------------------------------------------------------------------------
// Val: a number *representation* as the module produces / accepts it
// ------------------------------------------------------------------------------------------

#[derive(Clone, Debug, PartialEq, Eq, Hash)]
pub enum Val {
    Nil,
    Ok,
    Int(BigInt),
    /// `Rational[n, d]` exactly as written (not necessarily canonical when parsed from output).
    Rat(BigInt, BigInt),
    /// `Surd[a, b, n]`; `a`, `b` are `Int` or `Rat`.
    Surd(Box<Val>, Box<Val>, BigInt),
}

impl Val {
    pub fn int(n: i64) -> Val {
        Val::Int(BigInt::from(n))
    }
    /// The rational `q` as a `Rational[..]` (never lowered).
    pub fn rat(q: &Q) -> Val {
        Val::Rat(q.n.clone(), q.d.clone())
    }
    /// `lower`: an integral rational becomes a bare integer.
    pub fn lowered(q: &Q) -> Val {
        if q.is_int() {
            Val::Int(q.n.clone())
        } else {
            Val::rat(q)
        }
    }
    /// Canonical structural rendering, identical to `crate::render::Renderer` on such a value.
    pub fn render(&self) -> String {
        match self {
            Val::Nil => "[]".into(),
            Val::Ok => "Ok".into(),
            Val::Int(n) => n.to_string(),
            Val::Rat(n, d) => format!("Rational[{}, {}]", n, d),
            Val::Surd(a, b, n) => format!("Surd[{}, {}, {}]", a.render(), b.render(), n),
        }
    }
    pub fn is_nil(&self) -> bool {
        matches!(self, Val::Nil)
    }
    pub fn is_surd(&self) -> bool {
        matches!(self, Val::Surd(..))
    }
    pub fn is_rat(&self) -> bool {
        matches!(self, Val::Rat(..))
    }
    pub fn kind(&self) -> &'static str {
        match self {
            Val::Nil => "nil",
            Val::Ok => "ok",
            Val::Int(_) => "int",
            Val::Rat(..) => "rational",
            Val::Surd(..) => "surd",
        }
    }
    /// Parse a canonical rendering. Anything that is not a number representation, `[]` or `Ok`
    /// is an error (the caller reports it as a malformed result).
    pub fn parse(text: &str) -> Result<Val, String> {
        let mut p = P {
            s: text.as_bytes(),
            i: 0,
        };
        let v = p.val()?;
        if p.i != p.s.len() {
            return Err(format!("trailing text in {:?}", text));
        }
        Ok(v)
    }
}

struct P<'a> {
    s: &'a [u8],
    i: usize,
}

impl P<'_> {
    fn eat(&mut self, lit: &str) -> bool {
        if self.s[self.i..].starts_with(lit.as_bytes()) {
            self.i += lit.len();
            true
        } else {
            false
        }
    }
    fn int(&mut self) -> Result<BigInt, String> {
        let st = self.i;
        if self.i < self.s.len() && self.s[self.i] == b'-' {
            self.i += 1;
        }
        let ds = self.i;
        while self.i < self.s.len() && self.s[self.i].is_ascii_digit() {
            self.i += 1;
        }
        if self.i == ds {
            return Err(format!("integer expected at byte {}", st));
        }
        std::str::from_utf8(&self.s[st..self.i])
            .unwrap()
            .parse::<BigInt>()
            .map_err(|e| e.to_string())
    }
    fn val(&mut self) -> Result<Val, String> {
        if self.eat("[]") {
            return Ok(Val::Nil);
        }
        if self.eat("Ok") {
            return Ok(Val::Ok);
        }
        if self.eat("Rational[") {
            let n = self.int()?;
            if !self.eat(", ") {
                return Err("`, ` expected in Rational".into());
            }
            let d = self.int()?;
            if !self.eat("]") {
                return Err("`]` expected in Rational".into());
            }
            return Ok(Val::Rat(n, d));
        }
        if self.eat("Surd[") {
            let a = self.val()?;
            if !self.eat(", ") {
                return Err("`, ` expected in Surd".into());
            }
            let b = self.val()?;
            if !self.eat(", ") {
                return Err("`, ` expected in Surd".into());
            }
            let n = self.int()?;
            if !self.eat("]") {
                return Err("`]` expected in Surd".into());
            }
            for c in [&a, &b] {
                if !matches!(c, Val::Int(_) | Val::Rat(..)) {
                    return Err("surd coefficient is not an int or rational".into());
                }
            }
            return Ok(Val::Surd(Box::new(a), Box::new(b), n));
        }
        self.int().map(Val::Int)
    }
}

/// Split the canonical rendering of an unnamed tuple `[a, b, ...]` into its top-level fields.
pub fn split_tuple(text: &str) -> Option<Vec<String>> {
    let t = text.trim();
    if !t.starts_with('[') || !t.ends_with(']') {
        return None;
    }
    let inner = &t[1..t.len() - 1];
    let mut out = vec![];
    let mut depth = 0i32;
    let mut cur = String::new();
    for ch in inner.chars() {
        match ch {
            '[' | '(' | '{' => {
                depth += 1;
                cur.push(ch);
            }
            ']' | ')' | '}' => {
                depth -= 1;
                cur.push(ch);
            }
            ',' if depth == 0 => {
                out.push(cur.trim().to_string());
                cur = String::new();
            }
            _ => cur.push(ch),
        }
    }
    if depth != 0 {
        return None;
    }
    if !cur.trim().is_empty() {
        out.push(cur.trim().to_string());
    }
    Some(out)
}

// ------------------------------------------------------------------------------------------
// Alg: a + b*sqrt(n), exact. Invariant: b == 0 => n == 1; b != 0 => n square-free > 1.
// ------------------------------------------------------------------------------------------

#[derive(Clone, Debug, PartialEq, Eq, Hash)]
pub struct Alg {
    pub a: Q,
    pub b: Q,
    pub n: BigInt,
}

/// Step limit for trial-division square extraction (the module's `sqfree` is O(sqrt m) steps of
/// interpreted code; the check only hands it radicands it finishes on quickly).
pub const SQFREE_CAP: usize = 4000;

/// `n = k^2 * m`, `m` square-free, by the same trial division as `sqfree` in `std/num.qv`.
/// Returns `None` when more than `cap` loop iterations would be needed.
pub fn sqfree(n: &BigInt, cap: usize) -> Option<(BigInt, BigInt, usize)> {
    assert!(n.is_positive());
    let mut k = BigInt::one();
    let mut m = n.clone();
    let mut d = BigInt::from(2);
    let mut steps = 0usize;
    loop {
        steps += 1;
        if steps > cap {
            return None;
        }
        let dd = &d * &d;
        if dd > m {
            return Some((k, m, steps));
        }
        if (&m % &dd).is_zero() {
            k *= &d;
            m /= &dd;
        } else {
            d += 1;
        }
    }
}

impl Alg {
    pub fn rational(a: Q) -> Alg {
        Alg {
            a,
            b: Q::zero(),
            n: BigInt::one(),
        }
    }
    fn norm(a: Q, b: Q, n: BigInt) -> Alg {
        if n.is_one() {
            Alg::rational(a.add(&b))
        } else if b.is_zero() {
            Alg::rational(a)
        } else {
            Alg { a, b, n }
        }
    }
    /// The mathematical value of a representation (canonical or not). `None` when it is not a
    /// number, has a zero denominator, a non-positive radicand, or a radicand whose square part
    /// cannot be extracted within the step cap.
    pub fn of(v: &Val) -> Option<Alg> {
        match v {
            Val::Int(n) => Some(Alg::rational(Q::int(n.clone()))),
            Val::Rat(n, d) => {
                if d.is_zero() {
                    None
                } else {
                    Some(Alg::rational(Q::new(n.clone(), d.clone())))
                }
            }
            Val::Surd(a, b, n) => {
                let a = Alg::of(a)?.a;
                let b = Alg::of(b)?.a;
                if !n.is_positive() {
                    return None;
                }
                let (k, m, _) = sqfree(n, SQFREE_CAP)?;
                Some(Alg::norm(a, b.mul(&Q::int(k)), m))
            }
            _ => None,
        }
    }
    pub fn is_rational(&self) -> bool {
        self.b.is_zero()
    }
    /// The radical two operands share, `None` when they carry different radicals.
    pub fn radical(&self, o: &Alg) -> Option<BigInt> {
        if self.b.is_zero() {
            Some(o.n.clone())
        } else if o.b.is_zero() || self.n == o.n {
            Some(self.n.clone())
        } else {
            None
        }
    }
    pub fn neg(&self) -> Alg {
        Alg {
            a: self.a.neg(),
            b: self.b.neg(),
            n: self.n.clone(),
        }
    }
    pub fn add(&self, o: &Alg) -> Option<Alg> {
        let n = self.radical(o)?;
        Some(Alg::norm(self.a.add(&o.a), self.b.add(&o.b), n))
    }
    pub fn sub(&self, o: &Alg) -> Option<Alg> {
        self.add(&o.neg())
    }
    pub fn mul(&self, o: &Alg) -> Option<Alg> {
        let n = self.radical(o)?;
        let nq = Q::int(n.clone());
        let a = self.a.mul(&o.a).add(&self.b.mul(&o.b).mul(&nq));
        let b = self.a.mul(&o.b).add(&self.b.mul(&o.a));
        Some(Alg::norm(a, b, n))
    }
    pub fn is_zero(&self) -> bool {
        self.a.is_zero() && self.b.is_zero()
    }
    /// `Some(None)`: compatible but the divisor is zero.
    pub fn div(&self, o: &Alg) -> Option<Option<Alg>> {
        let n = self.radical(o)?;
        if o.is_zero() {
            return Some(None);
        }
        let nq = Q::int(n.clone());
        // 1/(c + d r) = (c - d r) / (c^2 - d^2 n); the norm is non-zero for a non-zero element
        // because n is square-free > 1 (or d = 0).
        let norm = o.a.mul(&o.a).sub(&o.b.mul(&o.b).mul(&nq));
        assert!(!norm.is_zero(), "zero norm of a non-zero element");
        let ia = o.a.div(&norm).unwrap();
        let ib = o.b.neg().div(&norm).unwrap();
        let inv = Alg::norm(ia, ib, n);
        Some(self.mul(&inv))
    }
    /// Exact sign of `a + b sqrt n`.
    pub fn sign(&self) -> i32 {
        let (sa, sb) = (self.a.sign(), self.b.sign());
        if sb == 0 {
            return sa;
        }
        if sa == 0 || sa == sb {
            return sb;
        }
        // opposite signs: |a| vs |b| sqrt n  <=>  a^2 vs b^2 n (never equal: n square-free > 1)
        let a2 = self.a.mul(&self.a);
        let b2n = self.b.mul(&self.b).mul(&Q::int(self.n.clone()));
        match a2.cmp(&b2n) {
            Ordering::Greater => sa,
            Ordering::Less => sb,
            Ordering::Equal => unreachable!("a^2 = b^2 n with n square-free > 1"),
        }
    }
    /// `None` when the operands carry incompatible radicals.
    pub fn compare(&self, o: &Alg) -> Option<i32> {
        Some(self.sub(o)?.sign())
    }
    pub fn floor(&self) -> BigInt {
        let k = if self.b.is_zero() {
            self.a.floor()
        } else {
            let d = self.a.d.lcm(&self.b.d);
            let p = &self.a.n * (&d / &self.a.d);
            let q = &self.b.n * (&d / &self.b.d);
            let s = (&q * &q * &self.n).sqrt();
            let fl = if q.is_positive() { &p + &s } else { &p - &s - 1 };
            fl.div_floor(&d)
        };
        // Independent verification by the exact sign test: k <= v < k + 1.
        let lo = self.sub(&Alg::rational(Q::int(k.clone()))).unwrap().sign();
        let hi = self
            .sub(&Alg::rational(Q::int(&k + 1)))
            .unwrap()
            .sign();
        assert!(lo >= 0 && hi < 0, "oracle floor inconsistent");
        k
    }
    pub fn ceil(&self) -> BigInt {
        -self.neg().floor()
    }
    pub fn trunc(&self) -> BigInt {
        if self.sign() >= 0 {
            self.floor()
        } else {
            self.ceil()
        }
    }
    /// Nearest integer, halves away from zero.
    pub fn round(&self) -> BigInt {
        let half = Alg::rational(Q::new(BigInt::one(), BigInt::from(2)));
        if self.sign() >= 0 {
            self.add(&half).unwrap().floor()
        } else {
            -self.neg().add(&half).unwrap().floor()
        }
    }
    /// Simplest exact representation: a surd with lowered coefficients, or a lowered rational.
    pub fn collapse(&self) -> Val {
        if self.b.is_zero() {
            Val::lowered(&self.a)
        } else {
            Val::Surd(
                Box::new(Val::lowered(&self.a)),
                Box::new(Val::lowered(&self.b)),
                self.n.clone(),
            )
        }
    }
}

// ------------------------------------------------------------------------------------------
// Operations
// ------------------------------------------------------------------------------------------

#[derive(Clone, Copy, Debug, PartialEq, Eq, Hash, PartialOrd, Ord)]
pub enum Op {
    Numer,
    Denom,
    Sqrt,
    Neg,
    Abs,
    ToInt,
    Floor,
    Ceil,
    Round,
    Sign,
    Add,
    Sub,
    Mul,
    Div,
    Eq,
    Lt,
    Le,
    Gt,
    Ge,
    Min,
    Max,
    Clamp,
}

pub const UNARY: [Op; 10] = [
    Op::Numer,
    Op::Denom,
    Op::Sqrt,
    Op::Neg,
    Op::Abs,
    Op::ToInt,
    Op::Floor,
    Op::Ceil,
    Op::Round,
    Op::Sign,
];
pub const BINARY: [Op; 11] = [
    Op::Add,
    Op::Sub,
    Op::Mul,
    Op::Div,
    Op::Eq,
    Op::Lt,
    Op::Le,
    Op::Gt,
    Op::Ge,
    Op::Min,
    Op::Max,
];

impl Op {
    pub fn name(self) -> &'static str {
        match self {
            Op::Numer => "numer",
            Op::Denom => "denom",
            Op::Sqrt => "sqrt",
            Op::Neg => "neg",
            Op::Abs => "abs",
            Op::ToInt => "to_int",
            Op::Floor => "floor",
            Op::Ceil => "ceil",
            Op::Round => "round",
            Op::Sign => "sign",
            Op::Add => "add",
            Op::Sub => "sub",
            Op::Mul => "mul",
            Op::Div => "div",
            Op::Eq => "eq?",
            Op::Lt => "lt?",
            Op::Le => "le?",
            Op::Gt => "gt?",
            Op::Ge => "ge?",
            Op::Min => "min",
            Op::Max => "max",
            Op::Clamp => "clamp",
        }
    }
    pub fn from_name(s: &str) -> Option<Op> {
        UNARY
            .iter()
            .chain(BINARY.iter())
            .chain([Op::Clamp].iter())
            .copied()
            .find(|o| o.name() == s)
    }
    pub fn arity(self) -> usize {
        if UNARY.contains(&self) {
            1
        } else if self == Op::Clamp {
            3
        } else {
            2
        }
    }
}

/// What the documentation determines for one application.
#[derive(Clone, Debug, PartialEq, Eq)]
pub enum Expect {
    /// Exactly this representation.
    Exact(Val),
    /// Any of these representations (ties of `min`/`max` between equal numbers of different kind).
    OneOf(Vec<Val>),
    /// The documentation does not determine the result: run it, count it, do not judge it.
    Abstain(&'static str),
    /// Must not be run at all (would not terminate quickly): counted as skipped.
    Skip(&'static str),
}

fn verdict(b: bool) -> Val {
    if b { Val::Ok } else { Val::Nil }
}

/// The documented result of `op` on canonical operand representations.
pub fn expect_op(op: Op, args: &[Val]) -> Expect {
    use Expect::*;
    assert_eq!(args.len(), op.arity());
    // "any operation with a nil operand evaluates to nil" (std/num.qv, `'opt`)
    if args.iter().any(|a| a.is_nil()) {
        return Exact(Val::Nil);
    }
    let algs: Vec<Alg> = args
        .iter()
        .map(|a| Alg::of(a).expect("operand is a canonical number"))
        .collect();
    let any_surd = args.iter().any(|a| a.is_surd());
    let any_rat = args.iter().any(|a| a.is_rat());
    match op {
        Op::Add | Op::Sub | Op::Mul => {
            let r = match op {
                Op::Add => algs[0].add(&algs[1]),
                Op::Sub => algs[0].sub(&algs[1]),
                _ => algs[0].mul(&algs[1]),
            };
            let Some(r) = r else {
                return Exact(Val::Nil); // incompatible radicals
            };
            if any_surd {
                Exact(r.collapse())
            } else if any_rat {
                Exact(Val::rat(&r.a)) // a rational is never lowered
            } else {
                Exact(Val::Int(r.a.n.clone())) // integers stay integers
            }
        }
        Op::Div => match algs[0].div(&algs[1]) {
            None => Exact(Val::Nil),       // incompatible radicals
            Some(None) => Exact(Val::Nil), // division by zero
            Some(Some(r)) => {
                if any_surd {
                    Exact(r.collapse())
                } else {
                    Exact(Val::rat(&r.a)) // always a rational
                }
            }
        },
        Op::Neg => Exact(match &args[0] {
            Val::Int(n) => Val::Int(-n),
            Val::Rat(n, d) => Val::Rat(-n, d.clone()),
            _ => algs[0].neg().collapse(),
        }),
        Op::Abs => {
            let neg = algs[0].sign() < 0;
            Exact(match &args[0] {
                Val::Int(n) => Val::Int(n.abs()),
                Val::Rat(n, d) => Val::Rat(n.abs(), d.clone()),
                v => {
                    if neg {
                        algs[0].neg().collapse()
                    } else {
                        (*v).clone()
                    }
                }
            })
        }
        Op::Numer | Op::Denom => match &args[0] {
            Val::Int(n) => Exact(if op == Op::Numer {
                Val::Int(n.clone())
            } else {
                Val::int(1)
            }),
            Val::Rat(n, d) => Exact(Val::Int(if op == Op::Numer { n.clone() } else { d.clone() })),
            _ => Abstain("numer/denom of a surd is not documented"),
        },
        Op::Sqrt => {
            if any_surd {
                return Exact(Val::Nil); // "surd input fail[s] to nil"
            }
            let q = &algs[0].a;
            match q.sign() {
                -1 => Exact(Val::Nil),
                0 => Exact(Val::int(0)),
                _ => {
                    // sqrt(p/q) = sqrt(p q)/q = (k/q) sqrt m
                    let pq = &q.n * &q.d;
                    match sqfree(&pq, SQFREE_CAP) {
                        None => Skip("sqrt: trial division would not finish quickly"),
                        Some((k, m, _)) => {
                            assert_eq!(&k * &k * &m, pq);
                            let b = Q::new(k, q.d.clone());
                            Exact(Alg::norm(Q::zero(), b, m).collapse())
                        }
                    }
                }
            }
        }
        Op::ToInt => Exact(Val::Int(algs[0].trunc())),
        Op::Floor => Exact(Val::Int(algs[0].floor())),
        Op::Ceil => Exact(Val::Int(algs[0].ceil())),
        Op::Round => Exact(Val::Int(algs[0].round())),
        Op::Sign => Exact(Val::int(algs[0].sign() as i64)),
        Op::Eq | Op::Lt | Op::Le | Op::Gt | Op::Ge => match algs[0].compare(&algs[1]) {
            None => Exact(Val::Nil), // incomparable radicals
            Some(c) => Exact(verdict(match op {
                Op::Eq => c == 0,
                Op::Lt => c < 0,
                Op::Le => c <= 0,
                Op::Gt => c > 0,
                _ => c >= 0,
            })),
        },
        Op::Min | Op::Max => match algs[0].compare(&algs[1]) {
            None => Exact(Val::Nil), // "mixing incompatible radicals yields nil"
            Some(0) => {
                if args[0] == args[1] {
                    Exact(args[0].clone())
                } else {
                    OneOf(vec![args[0].clone(), args[1].clone()])
                }
            }
            Some(c) => {
                let first = if op == Op::Min { c < 0 } else { c > 0 };
                Exact(if first { args[0].clone() } else { args[1].clone() })
            }
        },
        Op::Clamp => {
            // "Clamp x to the range [lo, hi]"
            let (x, lo, hi) = (&algs[0], &algs[1], &algs[2]);
            // x is compared with lo first: incompatible radicals there yield nil whatever hi is
            // ("an operation whose operands carry incompatible radicals ... fails to nil")
            let Some(c_lo) = x.compare(lo) else {
                return Exact(Val::Nil);
            };
            let lo_hi = lo.compare(hi);
            if lo_hi == Some(1) {
                return Abstain("clamp with lo > hi is not documented");
            }
            if c_lo < 0 {
                return match lo_hi {
                    Some(_) => Exact(args[1].clone()),
                    None => Abstain("clamp: lo and hi carry incompatible radicals"),
                };
            }
            let Some(c_hi) = x.compare(hi) else {
                return Exact(Val::Nil); // x and hi carry incompatible radicals
            };
            if lo_hi.is_none() {
                return Abstain("clamp: lo and hi carry incompatible radicals");
            }
            if c_hi > 0 {
                return Exact(args[2].clone());
            }
            // x within [lo, hi]: x itself; when x equals a bound of another kind, either
            // representation of that number is acceptable.
            let mut alts = vec![args[0].clone()];
            if c_lo == 0 && args[1] != args[0] {
                alts.push(args[1].clone());
            }
            if c_hi == 0 && args[2] != args[0] && !alts.contains(&args[2]) {
                alts.push(args[2].clone());
            }
            if alts.len() == 1 {
                Exact(alts.pop().unwrap())
            } else {
                OneOf(alts)
            }
        }
    }
}

// ------------------------------------------------------------------------------------------
// Expressions over the module's operations
// ------------------------------------------------------------------------------------------

#[derive(Clone, Copy, Debug, PartialEq, Eq, Hash, PartialOrd, Ord)]
pub enum Mode {
    /// Operands written as literals: every call site sees the precise static operand types.
    Precise,
    /// Operands passed through an identity function of type `'opt -> 'opt`: every call site sees
    /// the full union (including nil) in every operand position.
    Wide,
}

impl Mode {
    pub fn name(self) -> &'static str {
        match self {
            Mode::Precise => "precise",
            Mode::Wide => "wide",
        }
    }
    pub fn from_name(s: &str) -> Option<Mode> {
        match s {
            "precise" => Some(Mode::Precise),
            "wide" => Some(Mode::Wide),
            _ => None,
        }
    }
    pub fn other(self) -> Mode {
        match self {
            Mode::Precise => Mode::Wide,
            Mode::Wide => Mode::Precise,
        }
    }
}

#[derive(Clone, Debug, PartialEq, Eq, Hash)]
pub enum Expr {
    Lit(Val),
    /// A literal in source form (fraction / decimal literal); only at top level of a
    /// construction case. Carries the source text and is evaluated by the parser's desugaring.
    Src(String),
    /// The `index`-th of `arity` parameters of a template function (never judged itself).
    Param(usize, usize),
    Op(Op, Vec<Expr>),
}

impl Expr {
    pub fn op1(op: Op, a: Expr) -> Expr {
        Expr::Op(op, vec![a])
    }
    pub fn op2(op: Op, a: Expr, b: Expr) -> Expr {
        Expr::Op(op, vec![a, b])
    }
    /// Quiver source of the expression (a chain).
    pub fn source(&self, mode: Mode) -> String {
        match self {
            Expr::Lit(v) => match mode {
                Mode::Precise => v.render(),
                Mode::Wide => format!("{} w", v.render()),
            },
            Expr::Src(s) => match mode {
                Mode::Precise => s.clone(),
                Mode::Wide => format!("{} w", s),
            },
            Expr::Param(_, 1) => "$".to_string(),
            Expr::Param(i, _) => format!("${}", i),
            Expr::Op(op, args) => {
                if args.len() == 1 {
                    format!("{} %num.{}", args[0].source(mode), op.name())
                } else {
                    format!(
                        "[{}] %num.{}",
                        args.iter().map(|a| a.source(mode)).collect::<Vec<_>>().join(", "),
                        op.name()
                    )
                }
            }
        }
    }
    /// Canonical, mode-independent text (used in signatures).
    pub fn text(&self) -> String {
        match self {
            Expr::Lit(v) => v.render(),
            Expr::Src(s) => format!("`{}`", s),
            Expr::Param(i, _) => format!("p{}", i),
            Expr::Op(op, args) => format!(
                "{}({})",
                op.name(),
                args.iter().map(|a| a.text()).collect::<Vec<_>>().join(", ")
            ),
        }
    }
    pub fn leaves<'a>(&'a self, out: &mut Vec<&'a Val>) {
        match self {
            Expr::Lit(v) => out.push(v),
            Expr::Src(_) | Expr::Param(..) => {}
            Expr::Op(_, args) => args.iter().for_each(|a| a.leaves(out)),
        }
    }
    pub fn nodes(&self) -> usize {
        match self {
            Expr::Op(_, args) => 1 + args.iter().map(|a| a.nodes()).sum::<usize>(),
            _ => 1,
        }
    }
    pub fn to_json(&self) -> serde_json::Value {
        match self {
            Expr::Lit(v) => serde_json::json!({ "lit": v.render() }),
            Expr::Src(s) => serde_json::json!({ "src": s }),
            Expr::Param(i, n) => serde_json::json!({ "param": i, "arity": n }),
            Expr::Op(op, args) => serde_json::json!({
                "op": op.name(),
                "args": args.iter().map(|a| a.to_json()).collect::<Vec<_>>(),
            }),
        }
    }
    pub fn from_json(j: &serde_json::Value) -> Result<Expr, String> {
        if let Some(l) = j["lit"].as_str() {
            return Ok(Expr::Lit(Val::parse(l)?));
        }
        if let Some(s) = j["src"].as_str() {
            return Ok(Expr::Src(s.to_string()));
        }
        let op = j["op"]
            .as_str()
            .and_then(Op::from_name)
            .ok_or_else(|| format!("bad expression json {}", j))?;
        let args = j["args"]
            .as_array()
            .ok_or("args missing")?
            .iter()
            .map(Expr::from_json)
            .collect::<Result<Vec<_>, _>>()?;
        if args.len() != op.arity() {
            return Err("arity mismatch in expression json".into());
        }
        Ok(Expr::Op(op, args))
    }
}

/// The value a fraction (`-2/4`) or decimal (`0.30`) literal denotes, by the documented rule:
/// "decimals and fractions become reduced `Rational` tuples; integer-valued literals stay
/// rationals".
pub fn literal_value(src: &str) -> Result<Val, String> {
    let (neg, body) = match src.strip_prefix('-') {
        Some(b) => (true, b),
        None => (false, src),
    };
    let q = if let Some((n, d)) = body.split_once('/') {
        let n: BigInt = n.parse().map_err(|_| "bad numerator")?;
        let d: BigInt = d.parse().map_err(|_| "bad denominator")?;
        if d.is_zero() {
            return Err("zero denominator".into());
        }
        Q::new(n, d)
    } else if let Some((i, f)) = body.split_once('.') {
        let n: BigInt = format!("{}{}", i, f).parse().map_err(|_| "bad decimal")?;
        Q::new(n, num_traits::pow(BigInt::from(10), f.len()))
    } else {
        return Err("not a fraction or decimal literal".into());
    };
    Ok(Val::rat(&if neg { q.neg() } else { q }))
}

/// Bottom-up documented result of an expression.
pub fn expect(e: &Expr) -> Expect {
    match e {
        Expr::Lit(v) => Expect::Exact(v.clone()),
        Expr::Src(s) => match literal_value(s) {
            Ok(v) => Expect::Exact(v),
            Err(_) => Expect::Abstain("literal outside the modelled forms"),
        },
        Expr::Param(..) => Expect::Abstain("template parameter"),
        Expr::Op(op, args) => {
            let mut vals = Vec::with_capacity(args.len());
            for a in args {
                match expect(a) {
                    Expect::Exact(v) => {
                        if v == Val::Ok {
                            return Expect::Abstain("verdict used as an operand");
                        }
                        vals.push(v)
                    }
                    Expect::OneOf(_) => {
                        return Expect::Abstain("operand representation not determined (tie)");
                    }
                    other => return other,
                }
            }
            expect_op(*op, &vals)
        }
    }
}

/// Simplicity rank of an operand for shrinking: nil, then integers, rationals, surds, each by
/// magnitude. Smaller is simpler.
pub fn rank(v: &Val) -> (u8, BigInt, BigInt, BigInt, u8) {
    fn mag(v: &Val) -> (BigInt, u8) {
        match v {
            Val::Int(n) => (n.abs(), n.is_negative() as u8),
            Val::Rat(n, d) => (n.abs() + d.abs(), n.is_negative() as u8),
            _ => (BigInt::zero(), 0),
        }
    }
    match v {
        Val::Nil => (0, BigInt::zero(), BigInt::zero(), BigInt::zero(), 0),
        Val::Ok => (9, BigInt::zero(), BigInt::zero(), BigInt::zero(), 0),
        Val::Int(_) => {
            let (m, s) = mag(v);
            (1, BigInt::zero(), m, BigInt::zero(), s)
        }
        Val::Rat(..) => {
            let (m, s) = mag(v);
            (2, BigInt::zero(), m, BigInt::zero(), s)
        }
        Val::Surd(a, b, n) => {
            let (ma, sa) = mag(a);
            let (mb, sb) = mag(b);
            let ka = matches!(**a, Val::Rat(..)) as u8;
            let kb = matches!(**b, Val::Rat(..)) as u8;
            (3, n.clone(), ma + mb, BigInt::from(ka + kb), sa * 2 + sb)
        }
    }
}
