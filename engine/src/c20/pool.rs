//! Worker processes for C20: each child (`current_exe()` re-invoked with `QV_C20_CHILD=1`) compiles
//! one program per request with the real parser + compiler and runs it with the real VM
//! (`execute_bytecode_sync`); the parent watches every request with a timeout, so a hang, a stack
//! overflow or an abort inside the repository code costs one child and is reported as an outcome,
//! never as a crash of the check.
//!
//! Measured on this machine (11 `%num` binary operations on a rational and a surd): a warm REPL
//! session line costs 8-13 ms (and grows with the age of the session), a freshly compiled program
//! 14 ms of which < 2 ms is execution; one compiled program that defines the operations once as a
//! function and applies it to 32 operand tuples costs about 2 ms per tuple. Hence compiled programs.

use crate::qcompile::{CompileFail, compile, core_builtins};
use crate::render::Renderer;
use std::io::{BufRead, BufReader, Write};
use std::process::{Child, ChildStdin, Command, Stdio};
use std::sync::Mutex;
use std::sync::atomic::{AtomicUsize, Ordering};
use std::sync::mpsc::{Receiver, RecvTimeoutError, channel};
use std::time::Duration;

pub const CHILD_ENV: &str = "QV_C20_CHILD";

#[derive(Clone, Debug, PartialEq, Eq)]
pub enum Outcome {
    Value(String),
    Parse(String),
    Compile(String),
    Runtime(String),
    Broken(String),
    Hang,
    /// Not evaluated at all: the run's hang limit was reached before.
    NotRun,
}

/// Programs that ran into the watchdog so far (each costs a full watchdog period).
static HANGS: AtomicUsize = AtomicUsize::new(0);
/// After this many, nothing further is evaluated in this run (reported as a cap).
pub const MAX_HANGS: usize = 8;

pub fn hang_limit_reached() -> bool {
    HANGS.load(Ordering::SeqCst) >= MAX_HANGS
}

impl Outcome {
    pub fn describe(&self) -> String {
        match self {
            Outcome::Value(v) => v.clone(),
            Outcome::Parse(e) => format!("<parse error: {}>", e),
            Outcome::Compile(e) => format!("<compile error: {}>", e),
            Outcome::Runtime(e) => format!("<runtime error: {}>", e),
            Outcome::Broken(e) => format!("<broken: {}>", e),
            Outcome::Hang => "<no answer within the watchdog limit>".into(),
            Outcome::NotRun => "<not run: hang limit of this run reached>".into(),
        }
    }
    fn to_wire(&self) -> String {
        let (k, v) = match self {
            Outcome::Value(v) => ("V", v.as_str()),
            Outcome::Parse(e) => ("P", e.as_str()),
            Outcome::Compile(e) => ("C", e.as_str()),
            Outcome::Runtime(e) => ("R", e.as_str()),
            Outcome::Broken(e) => ("B", e.as_str()),
            Outcome::Hang => ("H", ""),
            Outcome::NotRun => ("N", ""),
        };
        serde_json::json!({ "k": k, "v": v }).to_string()
    }
    fn from_wire(s: &str) -> Outcome {
        let Ok(j) = serde_json::from_str::<serde_json::Value>(s) else {
            return Outcome::Broken(format!("unreadable worker answer {:?}", s));
        };
        let v = j["v"].as_str().unwrap_or("").to_string();
        match j["k"].as_str() {
            Some("V") => Outcome::Value(v),
            Some("P") => Outcome::Parse(v),
            Some("C") => Outcome::Compile(v),
            Some("R") => Outcome::Runtime(v),
            Some("H") => Outcome::Hang,
            Some("N") => Outcome::NotRun,
            _ => Outcome::Broken(v),
        }
    }
}

// ------------------------------------------------------------------------------------------
// child side
// ------------------------------------------------------------------------------------------

/// Every program starts with these lines: the module's `'opt` union spelled out, and an identity
/// function on it (used to hide the precise type of a literal operand from a call site).
pub const PRELUDE: &str = "'c = 'int | Rational['int, 'int]\n'o = 'c | Surd['c, 'c, 'int] | []\nw = #'o { $ }\n";

/// Compile and run one program in this process (all repository calls under `catch_unwind`).
pub fn eval_program(src: &str, builtins: &quiver_core::builtins::BuiltinRegistry<crate::qcompile::E>) -> Outcome {
    let r = std::panic::catch_unwind(std::panic::AssertUnwindSafe(|| {
        let unit = match compile(src, builtins) {
            Ok(u) => u,
            Err(CompileFail::Parse(e)) => return Outcome::Parse(e),
            Err(CompileFail::Compile(e)) => return Outcome::Compile(e),
            Err(CompileFail::Panic(e)) => return Outcome::Broken(format!("compiler panic: {}", e)),
        };
        let bytecode = unit.bytecode();
        let names = bytecode.clone();
        match quiver_core::execute_bytecode_sync(bytecode, builtins, false) {
            Ok((v, _executor)) => {
                let r = Renderer {
                    types: &names,
                    heap: &[],
                    constants: &names.constants,
                    pid_names: None,
                    ref_names: None,
                };
                Outcome::Value(r.render(&v))
            }
            Err(e) => Outcome::Runtime(format!("{:?}", e)),
        }
    }));
    match r {
        Ok(o) => o,
        Err(_) => Outcome::Broken(format!("panic: {}", crate::sim::system::take_panic())),
    }
}

pub fn child_main() -> ! {
    let builtins = core_builtins();
    let stdin = std::io::stdin();
    let stdout = std::io::stdout();
    for line in stdin.lock().lines() {
        let Ok(line) = line else { break };
        let outcome = match serde_json::from_str::<serde_json::Value>(&line) {
            Ok(j) => match j["src"].as_str() {
                Some(src) => eval_program(src, &builtins),
                None => Outcome::Broken("request without src".into()),
            },
            Err(e) => Outcome::Broken(format!("unreadable request: {}", e)),
        };
        let mut o = stdout.lock();
        let _ = writeln!(o, "{}", outcome.to_wire());
        let _ = o.flush();
    }
    std::process::exit(0);
}

// ------------------------------------------------------------------------------------------
// parent side
// ------------------------------------------------------------------------------------------

pub struct Worker {
    child: Child,
    stdin: ChildStdin,
    rx: Receiver<String>,
    timeout: Duration,
}

impl Worker {
    pub fn spawn(timeout: Duration) -> Result<Worker, String> {
        let exe = std::env::current_exe().map_err(|e| format!("current_exe: {}", e))?;
        let mut child = Command::new(exe)
            .args(["C20", "--tier", "quick"])
            .env(CHILD_ENV, "1")
            .stdin(Stdio::piped())
            .stdout(Stdio::piped())
            .stderr(Stdio::null())
            .spawn()
            .map_err(|e| format!("cannot spawn worker: {}", e))?;
        let stdin = child.stdin.take().ok_or("worker stdin")?;
        let stdout = child.stdout.take().ok_or("worker stdout")?;
        let (tx, rx) = channel();
        std::thread::spawn(move || {
            for l in BufReader::new(stdout).lines() {
                let Ok(l) = l else { break };
                if tx.send(l).is_err() {
                    break;
                }
            }
        });
        Ok(Worker {
            child,
            stdin,
            rx,
            timeout,
        })
    }

    fn respawn(&mut self) {
        let _ = self.child.kill();
        let _ = self.child.wait();
        if let Ok(w) = Worker::spawn(self.timeout) {
            *self = w; // the old child was killed and reaped above
        }
    }

    /// Compile and run one program (source text; `PRELUDE` is prepended here).
    pub fn eval(&mut self, body: &str) -> Outcome {
        if hang_limit_reached() {
            return Outcome::NotRun;
        }
        self.eval_forced(body)
    }

    /// As `eval`, but also after the run's hang limit was reached (used to narrow down one hang).
    pub fn eval_forced(&mut self, body: &str) -> Outcome {
        let req = serde_json::json!({ "src": format!("{}{}", PRELUDE, body) }).to_string();
        if writeln!(self.stdin, "{}", req).and_then(|_| self.stdin.flush()).is_err() {
            self.respawn();
            return Outcome::Broken("worker process is gone (write failed)".into());
        }
        match self.rx.recv_timeout(self.timeout) {
            Ok(l) => Outcome::from_wire(&l),
            Err(RecvTimeoutError::Timeout) => {
                HANGS.fetch_add(1, Ordering::SeqCst);
                self.respawn();
                Outcome::Hang
            }
            Err(RecvTimeoutError::Disconnected) => {
                self.respawn();
                Outcome::Broken("worker process died (abort, stack overflow or exit)".into())
            }
        }
    }

    pub fn shutdown(mut self) {
        drop(self.stdin);
        let _ = self.child.kill();
        let _ = self.child.wait();
    }
}

/// A fixed set of workers shared by the rayon threads.
pub struct Pool {
    idle: Mutex<Vec<Worker>>,
    timeout: Duration,
    pub size: usize,
}

impl Pool {
    pub fn new(size: usize, timeout: Duration) -> Result<Pool, String> {
        let mut v = vec![];
        for _ in 0..size {
            v.push(Worker::spawn(timeout)?);
        }
        Ok(Pool {
            idle: Mutex::new(v),
            timeout,
            size,
        })
    }
    /// Run `f` with exclusive use of one worker (an extra one is started if none is idle).
    pub fn with<R>(&self, f: impl FnOnce(&mut Worker) -> R) -> Result<R, String> {
        let w = self.idle.lock().unwrap().pop();
        let mut w = match w {
            Some(w) => w,
            None => Worker::spawn(self.timeout)?,
        };
        let r = f(&mut w);
        self.idle.lock().unwrap().push(w);
        Ok(r)
    }
    pub fn shutdown(self) {
        for w in self.idle.into_inner().unwrap() {
            w.shutdown();
        }
    }
}
