//! C09 — one row of the pair matrix: type A = universe[i] against every B = universe[j], with
//! every failing pair shrunk on the spot (candidates are judged on demand, memoised per thread).

use super::judge::{self, Kind, Mem, Opts, PairEval, ResultMem};
use super::shrink;
use super::ty::{Ty, reverse_unions, unroll_once};
use super::universe::Universe;
use serde_json::{Value as J, json};
use std::cell::RefCell;
use std::collections::{BTreeMap, HashMap, HashSet};

pub struct UniTable<'a>(pub &'a Universe);

impl<'a> ResultMem for UniTable<'a> {
    fn lookup(&self, t: &Ty) -> Option<Mem<'_>> {
        let i = *self.0.index.get(t)? as usize;
        Some(mem_of(self.0, i))
    }
}

pub fn mem_of(u: &Universe, i: usize) -> Mem<'_> {
    Mem { bits: &u.in_bits[i], unk: &u.unk[i], list: &u.in_list[i] }
}

#[derive(Default, Clone, Debug)]
pub struct Row {
    pub i: u32,
    /// j with is_compatible(i, j) = true (sorted); only j < trans_limit are kept for i < trans_limit
    pub compat: Vec<u32>,
    /// j on which (i, j) is a reported unsound pair or is_compatible did not answer
    pub unsound: Vec<u32>,
    pub noanswer: Vec<u32>,
    /// (kind code, core A, core B) -> (failing inputs of this row that shrink to it, first j, witness, detail)
    pub cores: BTreeMap<(String, String, String), (u64, u32)>,
    pub counts: [u64; 24],
}

pub const C_EVAL: usize = 0;
pub const C_NONTRIVIAL: usize = 1;
pub const C_COMPAT: usize = 2;
pub const C_OVERLAP: usize = 3;
pub const C_COMMON: usize = 4;
pub const C_NARROW: usize = 5;
pub const C_NARROW_SKIP: usize = 6;
pub const C_IJUDGED: usize = 7;
pub const C_CJUDGED: usize = 8;
pub const C_IABST: usize = 9;
pub const C_CABST: usize = 10;
pub const C_DERIVED: usize = 11;
pub const C_REFL_SAME: usize = 12;
pub const C_REFL_COPY: usize = 13;
pub const C_UNROLL_PAIRS: usize = 14;
pub const C_UNROLL_REJECTED: usize = 15;
pub const C_SHRINK_EVALS: usize = 16;
pub const C_OUTSIDE: usize = 17;
pub const C_FAIL_BASE: usize = 18; // failing pair-kind instances
pub const C_T_SHRINK: usize = 19;
pub const C_T_REL: usize = 20;
pub const C_T_WIT: usize = 21;
pub const C_T_NARROW: usize = 22;

impl Row {
    pub fn to_json(&self) -> J {
        json!({
            "i": self.i,
            "compat": self.compat,
            "unsound": self.unsound,
            "noanswer": self.noanswer,
            "cores": self.cores.iter().map(|((k, a, b), (n, j))| json!([k, a, b, n, j])).collect::<Vec<_>>(),
            "c": self.counts.to_vec(),
        })
    }
    pub fn from_json(j: &J) -> Option<Row> {
        let c: Vec<u64> = j["c"].as_array()?.iter().filter_map(|x| x.as_u64()).collect();
        if c.len() != 24 {
            return None;
        }
        let mut counts = [0u64; 24];
        counts.copy_from_slice(&c);
        let list = |k: &str| -> Option<Vec<u32>> {
            Some(j[k].as_array()?.iter().filter_map(|x| x.as_u64().map(|x| x as u32)).collect())
        };
        let mut cores = BTreeMap::new();
        for f in j["cores"].as_array()? {
            cores.insert(
                (f[0].as_str()?.to_string(), f[1].as_str()?.to_string(), f[2].as_str()?.to_string()),
                (f[3].as_u64()?, f[4].as_u64()? as u32),
            );
        }
        Some(Row {
            i: j["i"].as_u64()? as u32,
            compat: list("compat")?,
            unsound: list("unsound")?,
            noanswer: list("noanswer")?,
            cores,
            counts,
        })
    }
}

fn mask_of(e: &PairEval) -> u16 {
    let mut m = 0u16;
    for (k, _, _) in &e.fails {
        m |= 1 << (*k as u16);
    }
    m
}

pub fn needs_narrowing(k: Kind) -> bool {
    matches!(
        k,
        Kind::Intersect | Kind::Complement | Kind::DivNarrow | Kind::PanicIntersect | Kind::PanicComplement
    )
}

/// The failure this kind is a mere consequence of when it occurs on the very same pair:
/// intersect_pair returns never because types_overlap said false; subtract_one returns nothing
/// because is_compatible said true; both modes share the unbounded recursion.
pub fn parent_kind(k: Kind) -> Option<Kind> {
    match k {
        Kind::Intersect => Some(Kind::Overlap),
        Kind::Complement => Some(Kind::Unsound),
        Kind::DivOverlap => Some(Kind::DivCompat),
        _ => None,
    }
}

#[derive(Default)]
struct ThreadState {
    key: usize,
    /// pair -> (mask, narrowing was included)
    evals: HashMap<(u32, u32), (u16, bool)>,
    memo: HashMap<Kind, HashMap<(u32, u32), (u32, u32)>>,
}

thread_local! {
    static STATE: RefCell<ThreadState> = RefCell::new(ThreadState::default());
}

pub struct RowCtx<'a> {
    pub u: &'a Universe,
    pub skip: &'a HashSet<(u32, u32, String)>,
    pub marker: Option<&'a (dyn Fn(u32, u32, &str) + Sync)>,
    pub trans_limit: usize,
}

pub fn eval_ij(cx: &RowCtx<'_>, i: usize, j: usize, narrowing: bool) -> PairEval {
    let u = cx.u;
    let rm = UniTable(u);
    let (ii, jj) = (i as u32, j as u32);
    let mk = |op: &str| {
        if let Some(m) = cx.marker {
            m(ii, jj, op)
        }
    };
    let opts = Opts {
        force_narrowing: false,
        no_narrowing: !narrowing,
        skip_intersect: !cx.skip.is_empty() && cx.skip.contains(&(ii, jj, "I".to_string())),
        skip_complement: !cx.skip.is_empty() && cx.skip.contains(&(ii, jj, "C".to_string())),
        marker: if cx.marker.is_some() { Some(&mk) } else { None },
    };
    judge::eval_pair(
        &u.vals,
        &u.program,
        &u.types[i],
        u.ids[i],
        &mem_of(u, i),
        &u.types[j],
        u.ids[j],
        &mem_of(u, j),
        &rm,
        &opts,
    )
}

/// Compute row i.
pub fn compute_row(cx: &RowCtx<'_>, i: usize) -> Row {
    let u = cx.u;
    let mut row = Row { i: i as u32, ..Default::default() };
    let key = u as *const Universe as usize;
    STATE.with(|st| {
        let mut st = st.borrow_mut();
        if st.key != key || st.evals.len() > 600_000 {
            *st = ThreadState { key, ..Default::default() };
        }
        let st = &mut *st;
        let a = &u.types[i];
        let rev = {
            let r = reverse_unions(a);
            if &r != a { u.index.get(&r).copied() } else { None }
        };
        let unrolled = if a.has_cycle() { unroll_once(a).and_then(|t| u.index.get(&t).copied()) } else { None };
        for j in 0..u.n() {
            let jj = j as u32;
            let e = eval_ij(cx, i, j, true);
            let mask = mask_of(&e);
            st.evals.insert((i as u32, jj), (mask, true));
            row.counts[C_EVAL] += 1;
            row.counts[C_T_REL] += e.t_ns[0];
            row.counts[C_T_WIT] += e.t_ns[1];
            row.counts[C_T_NARROW] += e.t_ns[2];
            if j & 63 == 0 {
                crate::c09::tick();
            }
            row.counts[C_NONTRIVIAL] += e.nontrivial as u64;
            if e.compat == Some(true) {
                row.counts[C_COMPAT] += 1;
                if i < cx.trans_limit && j < cx.trans_limit {
                    row.compat.push(jj);
                }
            }
            if e.compat.is_none() && i < cx.trans_limit && j < cx.trans_limit {
                row.noanswer.push(jj);
            }
            row.counts[C_OVERLAP] += (e.overlap == Some(true)) as u64;
            row.counts[C_COMMON] += e.common.is_some() as u64;
            row.counts[C_NARROW] += e.narrowing_called as u64;
            row.counts[C_NARROW_SKIP] += e.narrowing_skipped_divergent as u64;
            row.counts[C_IJUDGED] += e.intersect_judged as u64;
            row.counts[C_CJUDGED] += e.complement_judged as u64;
            row.counts[C_IABST] += e.intersect_abstained as u64;
            row.counts[C_CABST] += e.complement_abstained as u64;
            // reflexivity
            if j == i && e.compat == Some(true) {
                row.counts[C_REFL_SAME] += 1;
            }
            if Some(jj) == rev {
                if let Some(c) = e.compat {
                    row.counts[C_REFL_COPY] += 1;
                    if !c {
                        let core = shrink::core_of_single(
                            &|t: &Ty| {
                                let r = reverse_unions(t);
                                match (u.index.get(t), u.index.get(&r)) {
                                    (Some(&x), Some(&y)) if x != y => {
                                        eval_ij(cx, x as usize, y as usize, false).compat == Some(false)
                                    }
                                    _ => false,
                                }
                            },
                            a.clone(),
                        );
                        let r = reverse_unions(&core);
                        let e = row.cores.entry(("R".into(), core.to_string(), r.to_string())).or_insert((0, jj));
                        e.0 += 1;
                    }
                }
            }
            if Some(jj) == unrolled {
                if let Some(c) = e.compat {
                    row.counts[C_UNROLL_PAIRS] += 1;
                    row.counts[C_UNROLL_REJECTED] += !c as u64;
                }
            }
            if mask == 0 {
                continue;
            }
            if mask & (1 << Kind::Unsound as u16) != 0 && i < cx.trans_limit && j < cx.trans_limit {
                row.unsound.push(jj);
            }
            // culprit calls skipped in this pair are failures of their own (reported by the supervisor)
            for (k, _w, _d) in &e.fails {
                row.counts[C_FAIL_BASE] += 1;
                if let Some(pk) = parent_kind(*k) {
                    if mask & (1 << pk as u16) != 0 {
                        row.counts[C_DERIVED] += 1;
                        continue;
                    }
                }
                let kind = *k;
                let want = 1u16 << kind as u16;
                let narrowing = needs_narrowing(kind);
                let mut shrink_evals = 0u64;
                let outside = 0u64;
                let evals = &mut st.evals;
                let mut fails_ix = |xi: u32, yi: u32| -> bool {
                    if let Some(&(m, n)) = evals.get(&(xi, yi)) {
                        if n || !narrowing {
                            return m & want != 0;
                        }
                    }
                    shrink_evals += 1;
                    let e = eval_ij(cx, xi as usize, yi as usize, narrowing);
                    let m = mask_of(&e);
                    evals.insert((xi, yi), (m, narrowing));
                    m & want != 0
                };
                let memo = st.memo.entry(kind).or_default();
                if memo.len() > 400_000 {
                    memo.clear();
                }
                let ts = std::time::Instant::now();
                let core_ix = core_of_pair_ix(u, &mut fails_ix, (i as u32, jj), memo);
                let core = (u.types[core_ix.0 as usize].clone(), u.types[core_ix.1 as usize].clone());
                row.counts[C_T_SHRINK] += ts.elapsed().as_nanos() as u64;
                row.counts[C_SHRINK_EVALS] += shrink_evals;
                row.counts[C_OUTSIDE] += outside;
                // derived at the level of the core?
                if let (Some(pk), Some(&xi), Some(&yi)) = (parent_kind(kind), u.index.get(&core.0), u.index.get(&core.1)) {
                    let m = match st.evals.get(&(xi, yi)) {
                        Some(&(m, _)) => m,
                        None => mask_of(&eval_ij(cx, xi as usize, yi as usize, false)),
                    };
                    if m & (1 << pk as u16) != 0 {
                        row.counts[C_DERIVED] += 1;
                        continue;
                    }
                }
                let e = row
                    .cores
                    .entry((kind.code().to_string(), core.0.to_string(), core.1.to_string()))
                    .or_insert((0, jj));
                e.0 += 1;
            }
        }
    });
    row
}

/// The shrinking walk of `shrink::core_of_pair`, on universe indices: identical candidate order
/// (corresponding components; left operand's steps; right operand's steps; joint substitutions,
/// renamings and the mirrored pair), candidates outside the universe are not followed.
pub fn core_of_pair_ix(
    u: &Universe,
    fails: &mut dyn FnMut(u32, u32) -> bool,
    start: (u32, u32),
    memo: &mut HashMap<(u32, u32), (u32, u32)>,
) -> (u32, u32) {
    use super::ty::{joint_global, joint_steps};
    let mut path: Vec<(u32, u32)> = vec![];
    let mut cur = start;
    let result = loop {
        if let Some(r) = memo.get(&cur) {
            break *r;
        }
        let (ta, tb) = (&u.types[cur.0 as usize], &u.types[cur.1 as usize]);
        let mut next: Option<(u32, u32)> = None;
        let mut try_joint = |cands: Vec<(Ty, Ty)>, fails: &mut dyn FnMut(u32, u32) -> bool| -> Option<(u32, u32)> {
            for (ca, cb) in cands {
                if shrink::smaller(&[&ca, &cb], &[ta, tb]) && ca.well_formed(false) && cb.well_formed(false) {
                    if let (Some(&x), Some(&y)) = (u.index.get(&ca), u.index.get(&cb)) {
                        if fails(x, y) {
                            return Some((x, y));
                        }
                    }
                }
            }
            None
        };
        if let Some(n) = try_joint(joint_steps(ta, tb), fails) {
            next = Some(n);
        }
        if next.is_none() {
            for &ca in u.single_steps(cur.0 as usize) {
                if fails(ca, cur.1) {
                    next = Some((ca, cur.1));
                    break;
                }
            }
        }
        if next.is_none() {
            for &cb in u.single_steps(cur.1 as usize) {
                if fails(cur.0, cb) {
                    next = Some((cur.0, cb));
                    break;
                }
            }
        }
        if next.is_none() {
            next = try_joint(joint_global(ta, tb), fails);
        }
        match next {
            Some(n) => {
                path.push(cur);
                cur = n;
            }
            None => break cur,
        }
    };
    for p in path {
        memo.insert(p, result);
    }
    memo.insert(result, result);
    result
}
