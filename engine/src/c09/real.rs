//! C09 — the bridge to the real code: registering `Ty` terms through the public
//! `Program::register_type/register_tuple` API, decoding registry entries back to `Ty`, and calling
//! `quiver_core::types::{is_compatible, types_overlap}` and the narrowing helpers under
//! `catch_unwind`, with a fuel-counting `TypeLookup` that turns unbounded recursion of the relation
//! into a catchable panic long before the stack is exhausted.

use super::ty::{Label, Name, Ty, label_str, name_str};
use quiver_compiler::compiler::verif::{compute_complement, intersect_types};
use quiver_core::program::Program;
use quiver_core::types::{TupleTypeInfo, Type, TypeLookup, is_compatible, types_overlap};
use std::cell::Cell;
use std::panic::{AssertUnwindSafe, catch_unwind};

fn name_opt(n: Name) -> Option<String> {
    if n == 0 { None } else { Some(name_str(n).to_string()) }
}
fn label_opt(l: Label) -> Option<String> {
    if l == 0 { None } else { Some(label_str(l).to_string()) }
}

/// Register `t` (bottom-up) and return its type id.
pub fn register(p: &mut Program, t: &Ty) -> usize {
    match t {
        Ty::Int => p.register_type(Type::Integer),
        Ty::Bin => p.register_type(Type::Binary),
        Ty::Ref => p.register_type(Type::Reference),
        Ty::Tuple(n, fs) => {
            let fields: Vec<(Option<String>, usize)> =
                fs.iter().map(|(l, ft)| (label_opt(*l), register(p, ft))).collect();
            let tid = p.register_tuple(name_opt(*n), fields);
            p.register_type(Type::Tuple(tid))
        }
        Ty::Partial(n, fs) => {
            let fields: Vec<(String, usize)> =
                fs.iter().map(|(l, ft)| (label_str(*l).to_string(), register(p, ft))).collect();
            p.register_type(Type::Partial { name: name_opt(*n), fields })
        }
        Ty::Union(vs) => {
            let ids: Vec<usize> = vs.iter().map(|v| register(p, v)).collect();
            p.register_type(Type::Union(ids))
        }
        Ty::Cycle(k) => p.register_type(Type::Cycle(*k)),
        Ty::Fun(a, b) => {
            let parameter = register(p, a);
            let result = register(p, b);
            let receive = p.never();
            p.register_type(Type::Callable { parameter, result, receive })
        }
        Ty::Proc(a, b) => {
            let send = Some(register(p, a));
            let receive = Some(register(p, b));
            p.register_type(Type::Process { send, receive })
        }
    }
}

fn name_code(n: &Option<String>) -> Option<Name> {
    match n.as_deref() {
        None => Some(0),
        Some("A") => Some(1),
        Some("B") => Some(2),
        Some("C") => Some(3),
        _ => None,
    }
}
fn label_code(l: Option<&str>) -> Option<Label> {
    match l {
        None => Some(0),
        Some("x") => Some(1),
        Some("y") => Some(2),
        Some("z") => Some(3),
        _ => None,
    }
}

/// Decode a registry entry back into a `Ty`. `None` for shapes outside this check's vocabulary
/// (type variables, resources, half-known processes, callables with a non-never receive type).
pub fn decode(p: &Program, id: usize) -> Option<Ty> {
    Some(match p.lookup_type(id)? {
        Type::Integer => Ty::Int,
        Type::Binary => Ty::Bin,
        Type::Reference => Ty::Ref,
        Type::Tuple(tid) => {
            let info = p.lookup_tuple(*tid)?;
            let mut fs = vec![];
            for (l, ft) in &info.fields {
                fs.push((label_code(l.as_deref())?, decode(p, *ft)?));
            }
            Ty::Tuple(name_code(&info.name)?, fs)
        }
        Type::Partial { name, fields } => {
            let mut fs = vec![];
            for (l, ft) in fields {
                fs.push((label_code(Some(l.as_str()))?, decode(p, *ft)?));
            }
            Ty::Partial(name_code(name)?, fs)
        }
        Type::Union(ids) => {
            let mut vs = vec![];
            for i in ids {
                vs.push(decode(p, *i)?);
            }
            Ty::Union(vs)
        }
        Type::Cycle(k) => Ty::Cycle(*k),
        Type::Callable { parameter, result, receive } => {
            if !p.lookup_type(*receive)?.is_never() {
                return None;
            }
            Ty::Fun(Box::new(decode(p, *parameter)?), Box::new(decode(p, *result)?))
        }
        Type::Process { send, receive } => {
            Ty::Proc(Box::new(decode(p, (*send)?)?), Box::new(decode(p, (*receive)?)?))
        }
        Type::Resource(_) | Type::Variable(_) => return None,
    })
}

/// `TypeLookup` over a `Program` that counts look-ups and panics (caught by the caller) when the
/// fuel is used up. `check_type_relation` performs two look-ups per recursion step, so unbounded
/// recursion exhausts the fuel at a recursion depth of at most FUEL/2 — shallow enough for the
/// 256 MiB worker stacks — and is reported as "diverges" instead of killing the process.
pub struct FuelLookup<'a> {
    pub p: &'a Program,
    pub fuel: Cell<u64>,
    pub exhausted: Cell<bool>,
}

thread_local! {
    /// largest number of look-ups a call that answered has needed on this thread
    pub static MAX_USED: Cell<u64> = const { Cell::new(0) };
}

pub const FUEL: u64 = 20_000;
pub const FUEL_PANIC: &str = "C09-FUEL-EXHAUSTED";

impl<'a> TypeLookup for FuelLookup<'a> {
    fn lookup_type(&self, type_id: usize) -> Option<&Type> {
        let f = self.fuel.get();
        if f == 0 {
            // Out of fuel: answer "unknown type". check_type_relation then returns false at this
            // level and every pending level finishes after at most a few more (equally refused)
            // look-ups, so the recursion unwinds by ordinary returns; the call's result is
            // discarded and reported as "diverges".
            self.exhausted.set(true);
            return None;
        }
        self.fuel.set(f - 1);
        self.p.lookup_type(type_id)
    }
    fn lookup_tuple(&self, tuple_id: usize) -> Option<&TupleTypeInfo> {
        self.p.lookup_tuple(tuple_id)
    }
}

#[derive(Clone, Debug, PartialEq, Eq)]
pub enum Called<T> {
    Ok(T),
    /// The call panicked (message).
    Panic(String),
    /// The relation recursed until the look-up fuel was exhausted (unbounded recursion / blow-up).
    Diverged,
}

fn panic_text(e: Box<dyn std::any::Any + Send>) -> String {
    if let Some(s) = e.downcast_ref::<&str>() {
        s.to_string()
    } else if let Some(s) = e.downcast_ref::<String>() {
        s.clone()
    } else {
        "panic (non-string payload)".to_string()
    }
}

pub fn call_compatible(p: &Program, a: usize, b: usize) -> Called<bool> {
    let l = FuelLookup { p, fuel: Cell::new(FUEL), exhausted: Cell::new(false) };
    match catch_unwind(AssertUnwindSafe(|| is_compatible(a, b, &l))) {
        Ok(r) => {
            if l.exhausted.get() {
                Called::Diverged
            } else {
                let used = FUEL - l.fuel.get();
                MAX_USED.with(|m| {
                    if used > m.get() {
                        m.set(used)
                    }
                });
                Called::Ok(r)
            }
        }
        Err(e) => Called::Panic(panic_text(e)),
    }
}

pub fn call_overlap(p: &Program, a: usize, b: usize) -> Called<bool> {
    let l = FuelLookup { p, fuel: Cell::new(FUEL), exhausted: Cell::new(false) };
    match catch_unwind(AssertUnwindSafe(|| types_overlap(a, b, &l))) {
        Ok(r) => {
            if l.exhausted.get() {
                Called::Diverged
            } else {
                let used = FUEL - l.fuel.get();
                MAX_USED.with(|m| {
                    if used > m.get() {
                        m.set(used)
                    }
                });
                Called::Ok(r)
            }
        }
        Err(e) => Called::Panic(panic_text(e)),
    }
}

/// The relation called exactly as the compiler calls it (directly on the `Program`, no fuel).
/// Only used in isolated child processes.
pub fn raw_compatible(p: &Program, a: usize, b: usize) -> bool {
    is_compatible(a, b, p)
}
pub fn raw_overlap(p: &Program, a: usize, b: usize) -> bool {
    types_overlap(a, b, p)
}

pub fn call_intersect(p: &mut Program, a: usize, b: usize) -> Called<usize> {
    match catch_unwind(AssertUnwindSafe(|| intersect_types(a, b, p))) {
        Ok(r) => Called::Ok(r),
        Err(e) => Called::Panic(panic_text(e)),
    }
}

pub fn call_complement(p: &mut Program, a: usize, b: usize) -> Called<usize> {
    match catch_unwind(AssertUnwindSafe(|| compute_complement(a, b, p))) {
        Ok(r) => Called::Ok(r),
        Err(e) => Called::Panic(panic_text(e)),
    }
}
