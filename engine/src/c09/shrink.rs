//! C09 — deterministic shrinker. A failing pair is walked, one simplification step at a time
//! (first failing candidate in the fixed order of `ty::shrink_steps`, left operand first), to a
//! pair none of whose one-step simplifications fails any more: the minimal core. Whether a
//! candidate fails is decided by judging the candidate pair itself against the real code (the
//! universe is closed under simplification steps, so the membership tables are at hand; a
//! candidate outside the universe - only reachable from the unfolded family - is not followed).

use super::ty::{Ty, global_steps, joint_global, joint_hoists3, joint_steps, shrink_steps, simpler_cmp};
use std::collections::HashMap;

/// Well-founded measure: every accepted step strictly decreases it, so the walk terminates.
/// Well-founded measure (total nodes, total weight, simplicity order): `c` strictly below `cur`.
pub fn smaller(c: &[&Ty], cur: &[&Ty]) -> bool {
    use std::cmp::Ordering::*;
    let n1: usize = c.iter().map(|t| t.nodes()).sum();
    let n0: usize = cur.iter().map(|t| t.nodes()).sum();
    if n1 != n0 {
        return n1 < n0;
    }
    let w1: usize = c.iter().map(|t| t.weight()).sum();
    let w0: usize = cur.iter().map(|t| t.weight()).sum();
    if w1 != w0 {
        return w1 < w0;
    }
    for (x, y) in c.iter().zip(cur.iter()) {
        match simpler_cmp(x, y) {
            Less => return true,
            Greater => return false,
            Equal => {}
        }
    }
    false
}

pub fn core_of_pair(
    fails: &mut dyn FnMut(&Ty, &Ty) -> bool,
    start: (Ty, Ty),
    memo: &mut HashMap<(Ty, Ty), (Ty, Ty)>,
) -> (Ty, Ty) {
    let mut path: Vec<(Ty, Ty)> = vec![];
    let mut cur = start;
    let result = loop {
        if let Some(r) = memo.get(&cur) {
            break r.clone();
        }
        let mut next: Option<(Ty, Ty)> = None;
        // stage 1: descend into corresponding components (cheap)
        for (ca, cb) in joint_steps(&cur.0, &cur.1) {
            if smaller(&[&ca, &cb], &[&cur.0, &cur.1]) && ca.well_formed(false) && cb.well_formed(false) && fails(&ca, &cb) {
                next = Some((ca, cb));
                break;
            }
        }
        // stage 2: one operand at a time
        if next.is_none() {
            for ca in shrink_steps(&cur.0) {
                if smaller(&[&ca, &cur.1], &[&cur.0, &cur.1]) && ca.well_formed(false) && fails(&ca, &cur.1) {
                    next = Some((ca, cur.1.clone()));
                    break;
                }
            }
        }
        if next.is_none() {
            for cb in shrink_steps(&cur.1) {
                if smaller(&[&cur.0, &cb], &[&cur.0, &cur.1]) && cb.well_formed(false) && fails(&cur.0, &cb) {
                    next = Some((cur.0.clone(), cb));
                    break;
                }
            }
        }
        // stage 3: both operands at once (substitutions, renamings, mirror)
        if next.is_none() {
            for (ca, cb) in joint_global(&cur.0, &cur.1) {
                if smaller(&[&ca, &cb], &[&cur.0, &cur.1]) && ca.well_formed(false) && cb.well_formed(false) && fails(&ca, &cb) {
                    next = Some((ca, cb));
                    break;
                }
            }
        }
        match next {
            Some(n) => {
                path.push(cur);
                cur = n;
            }
            None => break cur.clone(),
        }
    };
    for p in path {
        memo.insert(p, result.clone());
    }
    memo.insert(result.clone(), result.clone());
    result
}

/// Shrink a triple under an arbitrary predicate (used for transitivity).
pub fn core_of_triple(
    fails: &dyn Fn(&Ty, &Ty, &Ty) -> bool,
    start: (Ty, Ty, Ty),
    memo: &mut HashMap<(Ty, Ty, Ty), (Ty, Ty, Ty)>,
) -> (Ty, Ty, Ty) {
    let mut path = vec![];
    let mut cur = start;
    let result = loop {
        if let Some(r) = memo.get(&cur) {
            break r.clone();
        }
        let mut next = None;
        let mut joint: Vec<(Ty, Ty, Ty)> = joint_hoists3(&cur.0, &cur.1, &cur.2);
        for g in global_steps(&[&cur.0, &cur.1, &cur.2]) {
            let mut it = g.into_iter();
            joint.push((it.next().unwrap(), it.next().unwrap(), it.next().unwrap()));
        }
        for cand in joint {
            if smaller(&[&cand.0, &cand.1, &cand.2], &[&cur.0, &cur.1, &cur.2])
                && cand.0.well_formed(false)
                && cand.1.well_formed(false)
                && cand.2.well_formed(false)
                && fails(&cand.0, &cand.1, &cand.2)
            {
                next = Some(cand);
                break;
            }
        }
        if let Some(n) = next {
            path.push(cur);
            cur = n;
            continue;
        }
        'outer: for pos in 0..3 {
            let t = match pos {
                0 => &cur.0,
                1 => &cur.1,
                _ => &cur.2,
            };
            for c in shrink_steps(t) {
                if !c.well_formed(false) {
                    continue;
                }
                let cand = match pos {
                    0 => (c, cur.1.clone(), cur.2.clone()),
                    1 => (cur.0.clone(), c, cur.2.clone()),
                    _ => (cur.0.clone(), cur.1.clone(), c),
                };
                if smaller(&[&cand.0, &cand.1, &cand.2], &[&cur.0, &cur.1, &cur.2]) && fails(&cand.0, &cand.1, &cand.2) {
                    next = Some(cand);
                    break 'outer;
                }
            }
        }
        match next {
            Some(n) => {
                path.push(cur);
                cur = n;
            }
            None => break cur.clone(),
        }
    };
    for p in path {
        memo.insert(p, result.clone());
    }
    memo.insert(result.clone(), result.clone());
    result
}

/// Shrink a single type under a predicate (used for the reflexivity copies).
pub fn core_of_single(fails: &dyn Fn(&Ty) -> bool, start: Ty) -> Ty {
    let mut cur = start;
    loop {
        let mut next = None;
        for c in shrink_steps(&cur) {
            if smaller(&[&c], &[&cur]) && c.well_formed(false) && fails(&c) {
                next = Some(c);
                break;
            }
        }
        match next {
            Some(n) => cur = n,
            None => return cur,
        }
    }
}
