//! C09 — the value universe and the INDEPENDENT structural membership oracle `member(v, T, ctx)`
//! (DESIGN §5.1). No dependency on `quiver_core::types`' relation code.
//!
//! Data values are canonical representatives: types cannot distinguish one integer (binary) from
//! another, so a single `0` (`0x`) leaf stands for both elements of the design's {0,1}
//! ({`0x`,`0x00`}); `represented()` gives the number of V_d values a representative stands for.

use super::ty::{Label, Name, Ty, label_str, name_str};
use std::collections::HashMap;
use std::fmt::Write;

pub type Vid = u32;

#[derive(Clone, PartialEq, Eq, Hash, Debug)]
pub enum Val {
    Int,
    Bin,
    Ref,
    Tup(Name, Vec<(Label, Vid)>),
    /// A function whose principal type is the closed callable type with this token index.
    Fun(u32),
    /// A process handle whose principal type is the closed process type with this token index.
    Proc(u32),
}

#[derive(Clone, Copy, PartialEq, Eq, Debug)]
pub enum Tri {
    No,
    Unknown,
    Yes,
}

impl Tri {
    fn and(self, o: Tri) -> Tri {
        match (self, o) {
            (Tri::No, _) | (_, Tri::No) => Tri::No,
            (Tri::Unknown, _) | (_, Tri::Unknown) => Tri::Unknown,
            _ => Tri::Yes,
        }
    }
    fn or(self, o: Tri) -> Tri {
        match (self, o) {
            (Tri::Yes, _) | (_, Tri::Yes) => Tri::Yes,
            (Tri::Unknown, _) | (_, Tri::Unknown) => Tri::Unknown,
            _ => Tri::No,
        }
    }
}

#[derive(Default, Clone)]
pub struct Values {
    pub vals: Vec<Val>,
    index: HashMap<Val, Vid>,
    /// principal types of function / process tokens (closed `Ty::Fun` / `Ty::Proc` terms)
    pub tokens: Vec<Ty>,
    token_index: HashMap<Ty, u32>,
    /// ids of the pure-data values (no token inside) usable as variance witnesses
    pub data_witnesses: Vec<Vid>,
    pure: Vec<bool>,
    depth: Vec<u8>,
    /// per token: witness bit sets of (parameter, result) resp. (send, receive)
    pub tok_bits: Vec<(WBits, WBits)>,
    /// tokens are only created for principal types up to this weight (0 = no limit)
    pub token_cap: usize,
}

impl Values {
    pub fn intern(&mut self, v: Val) -> Vid {
        if let Some(&i) = self.index.get(&v) {
            return i;
        }
        let i = self.vals.len() as Vid;
        let (pure, depth) = match &v {
            Val::Int | Val::Bin | Val::Ref => (true, 0),
            Val::Fun(_) | Val::Proc(_) => (false, 0),
            Val::Tup(_, fs) => (
                fs.iter().all(|(_, f)| self.pure[*f as usize]),
                fs.iter().map(|(_, f)| self.depth[*f as usize] + 1).max().unwrap_or(0),
            ),
        };
        self.pure.push(pure);
        self.depth.push(depth);
        self.vals.push(v.clone());
        self.index.insert(v, i);
        i
    }

    pub fn is_pure(&self, v: Vid) -> bool {
        self.pure[v as usize]
    }

    pub fn depth_of(&self, v: Vid) -> u8 {
        self.depth[v as usize]
    }

    pub fn token(&mut self, t: &Ty) -> u32 {
        debug_assert!(t.is_closed());
        if let Some(&i) = self.token_index.get(t) {
            return i;
        }
        let i = self.tokens.len() as u32;
        self.tokens.push(t.clone());
        self.token_index.insert(t.clone(), i);
        i
    }

    pub fn len(&self) -> usize {
        self.vals.len()
    }

    /// How many values of the design's V_d (ints {0,1}, binaries {0x,0x00}) this representative
    /// stands for: 2^(number of int/bin leaves).
    pub fn represented(&self, v: Vid) -> u64 {
        match &self.vals[v as usize] {
            Val::Int | Val::Bin => 2,
            Val::Ref | Val::Fun(_) | Val::Proc(_) => 1,
            Val::Tup(_, fs) => fs.iter().map(|(_, f)| self.represented(*f)).product(),
        }
    }

    pub fn show(&self, v: Vid) -> String {
        let mut s = String::new();
        self.show_into(v, &mut s);
        s
    }

    fn show_into(&self, v: Vid, s: &mut String) {
        match &self.vals[v as usize] {
            Val::Int => s.push('0'),
            Val::Bin => s.push_str("0x"),
            Val::Ref => s.push_str("<ref>"),
            Val::Fun(t) => {
                let _ = write!(s, "<fn:{}>", self.tokens[*t as usize]);
            }
            Val::Proc(t) => {
                let _ = write!(s, "<pid:{}>", self.tokens[*t as usize]);
            }
            Val::Tup(n, fs) => {
                if *n != 0 {
                    s.push_str(name_str(*n));
                }
                if *n == 0 || !fs.is_empty() {
                    s.push('[');
                    for (i, (l, f)) in fs.iter().enumerate() {
                        if i > 0 {
                            s.push_str(", ");
                        }
                        if *l != 0 {
                            s.push_str(label_str(*l));
                            s.push_str(": ");
                        }
                        self.show_into(*f, s);
                    }
                    s.push(']');
                }
            }
        }
    }

    /// Parse the text produced by `show` (replay files carry the witness value in this form).
    pub fn parse(&mut self, text: &str) -> Result<Vid, String> {
        let b = text.as_bytes();
        let mut i = 0usize;
        let v = self.parse_at(b, &mut i)?;
        while i < b.len() && (b[i] as char).is_whitespace() {
            i += 1;
        }
        if i != b.len() {
            return Err(format!("trailing input in value '{}'", text));
        }
        Ok(v)
    }

    fn parse_at(&mut self, b: &[u8], i: &mut usize) -> Result<Vid, String> {
        while *i < b.len() && (b[*i] as char).is_whitespace() {
            *i += 1;
        }
        if b[*i..].starts_with(b"<ref>") {
            *i += 5;
            return Ok(self.intern(Val::Ref));
        }
        if b[*i..].starts_with(b"<fn:") || b[*i..].starts_with(b"<pid:") {
            let is_fn = b[*i..].starts_with(b"<fn:");
            *i += if is_fn { 4 } else { 5 };
            // the type text extends to the matching '>' — type text contains "->", so scan with
            // bracket depth on ( [ only and stop at a '>' not preceded by '-'.
            let st = *i;
            let mut depth = 0i32;
            while *i < b.len() {
                match b[*i] {
                    b'(' | b'[' => depth += 1,
                    b')' | b']' => depth -= 1,
                    b'>' if depth == 0 && b[*i - 1] != b'-' => break,
                    _ => {}
                }
                *i += 1;
            }
            let t = super::ty::parse_ty(std::str::from_utf8(&b[st..*i]).map_err(|e| e.to_string())?)?;
            *i += 1;
            let k = self.token(&t);
            return Ok(self.intern(if is_fn { Val::Fun(k) } else { Val::Proc(k) }));
        }
        if b[*i..].starts_with(b"0x") {
            *i += 2;
            return Ok(self.intern(Val::Bin));
        }
        if b[*i] == b'0' {
            *i += 1;
            return Ok(self.intern(Val::Int));
        }
        let mut name: Name = 0;
        if b[*i] == b'A' || b[*i] == b'B' || b[*i] == b'C' {
            name = match b[*i] {
                b'A' => 1,
                b'B' => 2,
                _ => 3,
            };
            *i += 1;
        }
        let mut fs = vec![];
        if *i < b.len() && b[*i] == b'[' {
            *i += 1;
            loop {
                while *i < b.len() && (b[*i] as char).is_whitespace() {
                    *i += 1;
                }
                if b[*i] == b']' {
                    *i += 1;
                    break;
                }
                let mut l: Label = 0;
                if *i + 1 < b.len() && (b[*i] == b'x' || b[*i] == b'y' || b[*i] == b'z') && b[*i + 1] == b':' {
                    l = match b[*i] {
                        b'x' => 1,
                        b'y' => 2,
                        _ => 3,
                    };
                    *i += 2;
                }
                let f = self.parse_at(b, i)?;
                fs.push((l, f));
                while *i < b.len() && (b[*i] as char).is_whitespace() {
                    *i += 1;
                }
                if b[*i] == b',' {
                    *i += 1;
                }
            }
        } else if name == 0 {
            return Err("bad value text".into());
        }
        Ok(self.intern(Val::Tup(name, fs)))
    }
}

// ------------------------------------------------------------------------------------------
// Universe construction.

pub const VAL_NAMES: [Name; 3] = [0, 1, 2];
pub const VAL_LABELS: [Label; 3] = [0, 1, 2];

fn label_vectors(arity: usize) -> Vec<Vec<Label>> {
    // all label assignments without a repeated (non-empty) label
    let mut out = vec![vec![]];
    for _ in 0..arity {
        let mut next = vec![];
        for pre in &out {
            for &l in &VAL_LABELS {
                if l != 0 && pre.contains(&l) {
                    continue;
                }
                let mut p = pre.clone();
                p.push(l);
                next.push(p);
            }
        }
        out = next;
    }
    out
}

/// All tuples with names {none,A,B}, label vectors without repeats, arity 0..=max_arity, whose
/// fields are drawn from `fields`.
pub fn all_tuples_over(vals: &mut Values, fields: &[Vid], max_arity: usize) -> Vec<Vid> {
    fn vectors(fields: &[Vid], arity: usize) -> Vec<Vec<Vid>> {
        let mut out = vec![vec![]];
        for _ in 0..arity {
            let mut next = Vec::with_capacity(out.len() * fields.len());
            for pre in &out {
                for &f in fields {
                    let mut p = pre.clone();
                    p.push(f);
                    next.push(p);
                }
            }
            out = next;
        }
        out
    }
    let mut out = vec![];
    for &n in &VAL_NAMES {
        for arity in 0..=max_arity {
            let vecs = vectors(fields, arity);
            for labels in label_vectors(arity) {
                for fv in &vecs {
                    let fs: Vec<(Label, Vid)> = (0..arity).map(|k| (labels[k], fv[k])).collect();
                    out.push(vals.intern(Val::Tup(n, fs)));
                }
            }
        }
    }
    out
}

/// Type-directed inhabitants: a bounded, deterministic list of values that are members of the
/// (sub)term `t` in context `ctx` by construction (used only to *add* values to the universe —
/// membership is always re-decided by `member`).
pub fn inhabitants(vals: &mut Values, t: &Ty, ctx: &Vec<&Ty>, fuel: usize, cap: usize) -> Vec<Vid> {
    let mut out: Vec<Vid> = vec![];
    match t {
        Ty::Int => out.push(vals.intern(Val::Int)),
        Ty::Bin => out.push(vals.intern(Val::Bin)),
        Ty::Ref => out.push(vals.intern(Val::Ref)),
        Ty::Tuple(n, fs) => {
            let lists: Vec<Vec<Vid>> =
                fs.iter().map(|(_, ft)| inhabitants(vals, ft, ctx, fuel, cap)).collect();
            if lists.iter().any(|l| l.is_empty()) {
                return out;
            }
            // diagonal-ish product: vary one field at a time around the first choice, then pairs
            let mut combos: Vec<Vec<usize>> = vec![vec![0; fs.len()]];
            for k in 0..fs.len() {
                for j in 1..lists[k].len() {
                    let mut c = vec![0; fs.len()];
                    c[k] = j;
                    combos.push(c);
                }
            }
            if fs.len() == 2 {
                for j in 1..lists[0].len() {
                    for k in 1..lists[1].len() {
                        combos.push(vec![j, k]);
                    }
                }
            }
            for c in combos.into_iter().take(cap) {
                let f: Vec<(Label, Vid)> =
                    fs.iter().enumerate().map(|(k, (l, _))| (*l, lists[k][c[k]])).collect();
                out.push(vals.intern(Val::Tup(*n, f)));
            }
        }
        Ty::Partial(n, fs) => {
            let lists: Vec<Vec<Vid>> =
                fs.iter().map(|(_, ft)| inhabitants(vals, ft, ctx, fuel, cap)).collect();
            if lists.iter().any(|l| l.is_empty()) {
                return out;
            }
            let names: Vec<Name> = if *n != 0 { vec![*n] } else { vec![0, 1, 2] };
            let zero = vals.intern(Val::Int);
            let used: Vec<Label> = fs.iter().map(|(l, _)| *l).collect();
            let spare: Label = [1u8, 2, 3].into_iter().find(|l| !used.contains(l)).unwrap_or(3);
            let mut combos: Vec<Vec<usize>> = vec![vec![0; fs.len()]];
            for k in 0..fs.len() {
                for j in 1..lists[k].len() {
                    let mut c = vec![0; fs.len()];
                    c[k] = j;
                    combos.push(c);
                }
            }
            for c in combos.into_iter().take(cap) {
                let base: Vec<(Label, Vid)> =
                    fs.iter().enumerate().map(|(k, (l, _))| (*l, lists[k][c[k]])).collect();
                for &nm in &names {
                    out.push(vals.intern(Val::Tup(nm, base.clone())));
                    let mut extra = base.clone();
                    extra.push((0, zero));
                    out.push(vals.intern(Val::Tup(nm, extra)));
                    let mut extra2 = vec![(spare, zero)];
                    extra2.extend(base.iter().cloned());
                    out.push(vals.intern(Val::Tup(nm, extra2)));
                    if base.len() >= 2 {
                        let mut rev = base.clone();
                        rev.reverse();
                        out.push(vals.intern(Val::Tup(nm, rev)));
                    }
                }
            }
        }
        Ty::Union(vs) => {
            let mut ctx2 = ctx.clone();
            ctx2.push(t);
            let lists: Vec<Vec<Vid>> =
                vs.iter().map(|v| inhabitants(vals, v, &ctx2, fuel, cap)).collect();
            let longest = lists.iter().map(|l| l.len()).max().unwrap_or(0);
            for j in 0..longest {
                for l in &lists {
                    if let Some(v) = l.get(j) {
                        if !out.contains(v) {
                            out.push(*v);
                        }
                    }
                }
            }
            out.truncate(cap * 2);
        }
        Ty::Cycle(k) => {
            if fuel > 0 && *k <= ctx.len() {
                let target = ctx[ctx.len() - *k];
                let ctx2: Vec<&Ty> = ctx[..ctx.len() - *k].to_vec();
                out = inhabitants(vals, target, &ctx2, fuel - 1, cap);
                out.truncate(cap);
            }
        }
        Ty::Fun(..) => {
            if t.is_closed() && (vals.token_cap == 0 || t.weight() <= vals.token_cap) {
                let k = vals.token(t);
                out.push(vals.intern(Val::Fun(k)));
            }
        }
        Ty::Proc(..) => {
            if t.is_closed() && (vals.token_cap == 0 || t.weight() <= vals.token_cap) {
                let k = vals.token(t);
                out.push(vals.intern(Val::Proc(k)));
            }
        }
    }
    out
}

/// Collect the closed callable / process sub-terms of `t` as tokens (and as values).
pub fn collect_tokens(vals: &mut Values, t: &Ty, max_weight: usize) {
    match t {
        Ty::Int | Ty::Bin | Ty::Ref | Ty::Cycle(_) => {}
        Ty::Tuple(_, fs) | Ty::Partial(_, fs) => {
            for (_, f) in fs {
                collect_tokens(vals, f, max_weight);
            }
        }
        Ty::Union(vs) => {
            for v in vs {
                collect_tokens(vals, v, max_weight);
            }
        }
        Ty::Fun(a, b) | Ty::Proc(a, b) => {
            if t.is_closed() && t.weight() <= max_weight {
                let k = vals.token(t);
                vals.intern(if matches!(t, Ty::Fun(..)) { Val::Fun(k) } else { Val::Proc(k) });
            }
            collect_tokens(vals, a, max_weight);
            collect_tokens(vals, b, max_weight);
        }
    }
}

// ------------------------------------------------------------------------------------------
// The membership oracle.

/// (definitely-in, definitely-out) bit sets over `Values::data_witnesses`.
pub type WBits = (Vec<u64>, Vec<u64>);

fn wbits<'t>(o: &Oracle<'_>, t: &'t Ty, ctx: &mut Vec<&'t Ty>) -> WBits {
    let n = o.vals.data_witnesses.len();
    let mut yes = vec![0u64; (n + 63) / 64];
    let mut no = vec![0u64; (n + 63) / 64];
    for (k, &w) in o.vals.data_witnesses.iter().enumerate() {
        match o.member(w, t, ctx) {
            Tri::Yes => yes[k >> 6] |= 1 << (k & 63),
            Tri::No => no[k >> 6] |= 1 << (k & 63),
            Tri::Unknown => {}
        }
    }
    (yes, no)
}

fn some_in_and_out(a_yes: &[u64], b_no: &[u64]) -> bool {
    a_yes.iter().zip(b_no.iter()).any(|(x, y)| x & y != 0)
}

impl Values {
    /// Pre-compute, for every token, the witness bit sets of its principal type's two components.
    pub fn finalize(&mut self) {
        let mut bits = Vec::with_capacity(self.tokens.len());
        {
            let o = Oracle::new(self);
            for t in &self.tokens {
                let b = match t {
                    Ty::Fun(p0, r0) => {
                        let mut ctx: Vec<&Ty> = vec![t];
                        let pb = wbits(&o, p0, &mut ctx);
                        let rb = wbits(&o, r0, &mut ctx);
                        (pb, rb)
                    }
                    Ty::Proc(s0, r0) => {
                        let mut ctx: Vec<&Ty> = vec![];
                        let sb = wbits(&o, s0, &mut ctx);
                        let rb = wbits(&o, r0, &mut ctx);
                        (sb, rb)
                    }
                    _ => ((vec![], vec![]), (vec![], vec![])),
                };
                bits.push(b);
            }
        }
        self.tok_bits = bits;
    }
}

/// One oracle per evaluated type term: caches, per callable / process node of that term, the
/// witness bit sets of its components (the node's address identifies node + context).
pub struct Oracle<'v> {
    pub vals: &'v Values,
    cache: std::cell::RefCell<HashMap<usize, std::rc::Rc<(WBits, WBits)>>>,
}

impl<'v> Oracle<'v> {
    pub fn new(vals: &'v Values) -> Self {
        Oracle { vals, cache: std::cell::RefCell::new(HashMap::new()) }
    }

    /// Is value `v` an inhabitant of the sub-term `t`, whose enclosing boundaries (unions and
    /// callables, outermost first) are `ctx`? Exact (`Yes`/`No`) for data values; three-valued for
    /// values containing function / process tokens.
    pub fn member<'t>(&self, v: Vid, t: &'t Ty, ctx: &mut Vec<&'t Ty>) -> Tri {
        let vals = self.vals;
        let val = &vals.vals[v as usize];
        match t {
            Ty::Int => yes(matches!(val, Val::Int)),
            Ty::Bin => yes(matches!(val, Val::Bin)),
            Ty::Ref => yes(matches!(val, Val::Ref)),
            Ty::Tuple(n, fs) => match val {
                Val::Tup(vn, vfs) => {
                    if vn != n || vfs.len() != fs.len() {
                        return Tri::No;
                    }
                    for ((l, _), (vl, _)) in fs.iter().zip(vfs.iter()) {
                        if l != vl {
                            return Tri::No;
                        }
                    }
                    let mut r = Tri::Yes;
                    for ((_, ft), (_, vf)) in fs.iter().zip(vfs.iter()) {
                        r = r.and(self.member(*vf, ft, ctx));
                        if r == Tri::No {
                            return Tri::No;
                        }
                    }
                    r
                }
                _ => Tri::No,
            },
            Ty::Partial(n, fs) => match val {
                Val::Tup(vn, vfs) => {
                    if *n != 0 && vn != n {
                        return Tri::No;
                    }
                    let mut r = Tri::Yes;
                    for (l, ft) in fs {
                        // "some field with this label whose value is a member"
                        let mut any = Tri::No;
                        for (vl, vf) in vfs {
                            if vl == l {
                                any = any.or(self.member(*vf, ft, ctx));
                            }
                        }
                        r = r.and(any);
                        if r == Tri::No {
                            return Tri::No;
                        }
                    }
                    r
                }
                _ => Tri::No,
            },
            Ty::Union(vs) => {
                ctx.push(t);
                let mut r = Tri::No;
                for variant in vs {
                    r = r.or(self.member(v, variant, ctx));
                    if r == Tri::Yes {
                        break;
                    }
                }
                ctx.pop();
                r
            }
            Ty::Cycle(k) => {
                if *k == 0 || *k > ctx.len() {
                    // not closed: outside the domain; never used for a judgement
                    return Tri::Unknown;
                }
                let at = ctx.len() - *k;
                let target = ctx[at];
                let saved = ctx.split_off(at);
                let r = self.member(v, target, ctx);
                ctx.extend(saved);
                r
            }
            Ty::Fun(p, r) => match val {
                Val::Fun(tok) => {
                    let principal = &vals.tokens[*tok as usize];
                    let Ty::Fun(p0, r0) = principal else {
                        return Tri::Unknown;
                    };
                    // a function is a member of its own type
                    if t == principal && t.is_closed() {
                        return Tri::Yes;
                    }
                    let key = t as *const Ty as usize;
                    let cached = self.cache.borrow().get(&key).cloned();
                    let nb = match cached {
                        Some(b) => b,
                        None => {
                            ctx.push(t);
                            let pb = wbits(self, p, ctx);
                            let rb = wbits(self, r, ctx);
                            ctx.pop();
                            let b = std::rc::Rc::new((pb, rb));
                            self.cache.borrow_mut().insert(key, b.clone());
                            b
                        }
                    };
                    let Some(((p0_yes, p0_no), (r0_yes, _r0_no))) = vals.tok_bits.get(*tok as usize) else {
                        return Tri::Unknown;
                    };
                    let _ = p0_yes;
                    let ((p_yes, _), (_, r_no)) = &*nb;
                    // definitely not: a data witness in P but not in P0 (the parameter is
                    // contravariant), or in R0 but not in R (the result is covariant)
                    if some_in_and_out(p_yes, p0_no) || some_in_and_out(r0_yes, r_no) {
                        return Tri::No;
                    }
                    // definitely: P ⊆ P0 and R0 ⊆ R by purely syntactic, closed-term facts
                    if syn_subset(p, p0) && syn_subset(r0, r) {
                        return Tri::Yes;
                    }
                    Tri::Unknown
                }
                _ => Tri::No,
            },
            Ty::Proc(s, r) => match val {
                Val::Proc(tok) => {
                    let principal = &vals.tokens[*tok as usize];
                    let Ty::Proc(s0, r0) = principal else {
                        return Tri::Unknown;
                    };
                    if t == principal && t.is_closed() {
                        return Tri::Yes;
                    }
                    let key = t as *const Ty as usize;
                    let cached = self.cache.borrow().get(&key).cloned();
                    let nb = match cached {
                        Some(b) => b,
                        None => {
                            let sb = wbits(self, s, ctx);
                            let rb = wbits(self, r, ctx);
                            let b = std::rc::Rc::new((sb, rb));
                            self.cache.borrow_mut().insert(key, b.clone());
                            b
                        }
                    };
                    let Some(((s0_yes, s0_no), (r0_yes, _))) = vals.tok_bits.get(*tok as usize) else {
                        return Tri::Unknown;
                    };
                    let ((s_yes, s_no), (_, r_no)) = &*nb;
                    // receive (the awaited result) is covariant: a data witness in R0 but not in R
                    // refutes membership. The variance of `send` is not fixed by the documentation
                    // (types.rs treats it covariantly, message-passing soundness would want it
                    // contravariant): refute only when the two send types are incomparable, i.e.
                    // under every reading.
                    if some_in_and_out(r0_yes, r_no) {
                        return Tri::No;
                    }
                    if some_in_and_out(s_yes, s0_no) && some_in_and_out(s0_yes, s_no) {
                        return Tri::No;
                    }
                    if s.is_closed() && **s == **s0 && syn_subset(r0, r) {
                        return Tri::Yes;
                    }
                    Tri::Unknown
                }
                _ => Tri::No,
            },
        }
    }
}

/// Convenience: one-off membership of `v` in the closed term `t`.
pub fn member(vals: &Values, v: Vid, t: &Ty, _ctx: &Vec<&Ty>) -> Tri {
    Oracle::new(vals).member(v, t, &mut vec![])
}

fn yes(b: bool) -> Tri {
    if b { Tri::Yes } else { Tri::No }
}

/// Sound syntactic containment between CLOSED terms: equal, a variant of the right-hand union,
/// or a union all of whose (closed) variants are contained. Anything else: "don't know" (false).
pub fn syn_subset(s: &Ty, t: &Ty) -> bool {
    if !s.is_closed() || !t.is_closed() {
        return false;
    }
    if s == t {
        return true;
    }
    if let Ty::Union(tv) = t {
        if tv.iter().any(|x| x.is_closed() && x == s) {
            return true;
        }
    }
    if let Ty::Union(sv) = s {
        if !sv.is_empty() && sv.iter().all(|x| x.is_closed() && syn_subset(x, t)) {
            return true;
        }
    }
    false
}
