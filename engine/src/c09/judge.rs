//! C09 — judging one ordered pair (A, B) against the real code. Shared by the bulk row loop, the
//! shrinker's fallback, the replay handler and the isolated single-pair children.

use super::real::{self, Called};
use super::ty::Ty;
use super::vals::{self, Tri, Values, Vid};
use quiver_core::program::Program;

#[derive(Clone, Copy, PartialEq, Eq, Hash, Debug, PartialOrd, Ord)]
pub enum Kind {
    Unsound,
    Overlap,
    Intersect,
    Complement,
    DivCompat,
    DivOverlap,
    DivNarrow,
    PanicCompat,
    PanicOverlap,
    PanicIntersect,
    PanicComplement,
}

pub const ALL_KINDS: [Kind; 11] = [
    Kind::Unsound,
    Kind::Overlap,
    Kind::Intersect,
    Kind::Complement,
    Kind::DivCompat,
    Kind::DivOverlap,
    Kind::DivNarrow,
    Kind::PanicCompat,
    Kind::PanicOverlap,
    Kind::PanicIntersect,
    Kind::PanicComplement,
];

impl Kind {
    pub fn code(self) -> &'static str {
        match self {
            Kind::Unsound => "U",
            Kind::Overlap => "O",
            Kind::Intersect => "I",
            Kind::Complement => "C",
            Kind::DivCompat => "DC",
            Kind::DivOverlap => "DO",
            Kind::DivNarrow => "DN",
            Kind::PanicCompat => "PC",
            Kind::PanicOverlap => "PO",
            Kind::PanicIntersect => "PI",
            Kind::PanicComplement => "PX",
        }
    }
    pub fn from_code(s: &str) -> Option<Kind> {
        ALL_KINDS.iter().copied().find(|k| k.code() == s)
    }
    pub fn signature(self, a: &Ty, b: &Ty) -> String {
        match self {
            Kind::Unsound => format!("{} <= {}", a, b),
            Kind::Overlap => format!("{} ~ {}", a, b),
            Kind::Intersect => format!("{} & {}", a, b),
            Kind::Complement => format!("{} \\ {}", a, b),
            Kind::DivCompat => format!("diverges is_compatible({}, {})", a, b),
            Kind::DivOverlap => format!("diverges types_overlap({}, {})", a, b),
            Kind::DivNarrow => format!("diverges narrowing({}, {})", a, b),
            Kind::PanicCompat => format!("panics is_compatible({}, {})", a, b),
            Kind::PanicOverlap => format!("panics types_overlap({}, {})", a, b),
            Kind::PanicIntersect => format!("panics intersect_types({}, {})", a, b),
            Kind::PanicComplement => format!("panics compute_complement({}, {})", a, b),
        }
    }
    pub fn describe(self) -> &'static str {
        match self {
            Kind::Unsound => "is_compatible(A,B) = true but a value of A is not a value of B",
            Kind::Overlap => "types_overlap(A,B) = false but A and B share a value",
            Kind::Intersect => "intersect_types(A,B) drops a value that is in both A and B",
            Kind::Complement => "compute_complement(A,B) drops a value that is in A and not in B",
            Kind::DivCompat => "is_compatible(A,B) recurses without bound (stack overflow)",
            Kind::DivOverlap => "types_overlap(A,B) recurses without bound (stack overflow)",
            Kind::DivNarrow => "a narrowing helper on (A,B) reaches an unbounded recursion of the relation",
            Kind::PanicCompat => "is_compatible(A,B) panics",
            Kind::PanicOverlap => "types_overlap(A,B) panics",
            Kind::PanicIntersect => "intersect_types(A,B) panics",
            Kind::PanicComplement => "compute_complement(A,B) panics",
        }
    }
}

/// Membership facts about one type over the value universe.
pub struct Mem<'a> {
    pub bits: &'a [u64],
    pub unk: &'a [u32],
    pub list: &'a [u32],
}

impl<'a> Mem<'a> {
    pub fn is_in(&self, v: Vid) -> bool {
        self.bits[(v >> 6) as usize] >> (v & 63) & 1 == 1
    }
    pub fn is_out(&self, v: Vid) -> bool {
        !self.is_in(v) && self.unk.binary_search(&v).is_err()
    }
}

#[derive(Default, Clone, Debug)]
pub struct PairEval {
    pub compat: Option<bool>,
    pub overlap: Option<bool>,
    pub fails: Vec<(Kind, Option<Vid>, String)>,
    pub common: Option<Vid>,
    pub narrowing_called: bool,
    pub narrowing_skipped_divergent: bool,
    pub intersect_judged: u32,
    pub complement_judged: u32,
    pub intersect_abstained: bool,
    pub complement_abstained: bool,
    pub nontrivial: bool,
    /// nanoseconds spent in: the two relation calls, the witness searches, the narrowing part
    pub t_ns: [u64; 3],
}

/// How the membership of a *result* type of a narrowing helper is decided.
pub trait ResultMem {
    /// Some(table row) when the result type is a universe member with a precomputed table.
    fn lookup(&self, t: &Ty) -> Option<Mem<'_>>;
}

pub struct NoTable;
impl ResultMem for NoTable {
    fn lookup(&self, _t: &Ty) -> Option<Mem<'_>> {
        None
    }
}

fn result_member(o: &vals::Oracle<'_>, table: &Option<Mem<'_>>, r: &Ty, v: Vid) -> Tri {
    match table {
        Some(m) => {
            if m.is_in(v) {
                Tri::Yes
            } else if m.is_out(v) {
                Tri::No
            } else {
                Tri::Unknown
            }
        }
        None => o.member(v, r, &mut vec![]),
    }
}

fn no_prescreen() -> bool {
    static FLAG: std::sync::OnceLock<bool> = std::sync::OnceLock::new();
    *FLAG.get_or_init(|| std::env::var("C09_NO_PRESCREEN").is_ok())
}

/// Mirror of the *decomposition* the narrowing helpers perform (variants x variants, tuple fields
/// pairwise) calling the fuel-limited relation on every sub-pair: true when one of them diverges,
/// so that the helper itself (which calls the relation without any limit) is not run in-process.
pub fn prescreen_diverges(p: &Program, a: usize, b: usize, depth: usize) -> bool {
    use quiver_core::types::{Type, TypeLookup};
    if depth > 6 {
        return false;
    }
    let variants = |id: usize| -> Vec<usize> {
        match p.lookup_type(id) {
            Some(Type::Union(v)) => v.clone(),
            _ => vec![id],
        }
    };
    for av in variants(a) {
        for bv in variants(b) {
            if matches!(real::call_compatible(p, av, bv), Called::Diverged | Called::Panic(_)) {
                return true;
            }
            if matches!(real::call_overlap(p, av, bv), Called::Diverged | Called::Panic(_)) {
                return true;
            }
            if let (Some(Type::Tuple(t1)), Some(Type::Tuple(t2))) = (p.lookup_type(av), p.lookup_type(bv)) {
                if let (Some(i1), Some(i2)) = (p.lookup_tuple(*t1), p.lookup_tuple(*t2)) {
                    if i1.name == i2.name && i1.fields.len() == i2.fields.len() {
                        for ((_, f1), (_, f2)) in i1.fields.iter().zip(i2.fields.iter()) {
                            if prescreen_diverges(p, *f1, *f2, depth + 1) {
                                return true;
                            }
                        }
                    }
                }
            }
        }
    }
    false
}

pub struct Opts<'m> {
    /// call the narrowing helpers even when the selection rule would not
    pub force_narrowing: bool,
    /// relation only (used when shrinking relation-level failures)
    pub no_narrowing: bool,
    pub skip_intersect: bool,
    pub skip_complement: bool,
    /// called right before each in-process call of a narrowing helper ("I" / "C")
    pub marker: Option<&'m dyn Fn(&str)>,
}

impl<'m> Default for Opts<'m> {
    fn default() -> Self {
        Opts { force_narrowing: false, no_narrowing: false, skip_intersect: false, skip_complement: false, marker: None }
    }
}

/// Judge the ordered pair (A, B). `p` must have A and B registered as `ida`, `idb`.
#[allow(clippy::too_many_arguments)]
pub fn eval_pair(
    vals: &Values,
    p: &Program,
    a: &Ty,
    ida: usize,
    ma: &Mem<'_>,
    b: &Ty,
    idb: usize,
    mb: &Mem<'_>,
    rm: &dyn ResultMem,
    opts: &Opts<'_>,
) -> PairEval {
    let mut e = PairEval::default();
    let same = ida == idb;

    // --- the relation, both modes -------------------------------------------------------------
    let t0 = std::time::Instant::now();
    let c = real::call_compatible(p, ida, idb);
    let o = real::call_overlap(p, ida, idb);
    e.t_ns[0] = t0.elapsed().as_nanos() as u64;
    match &c {
        Called::Ok(r) => e.compat = Some(*r),
        Called::Diverged => e.fails.push((Kind::DivCompat, None, String::new())),
        Called::Panic(m) => e.fails.push((Kind::PanicCompat, None, m.clone())),
    }
    match &o {
        Called::Ok(r) => e.overlap = Some(*r),
        Called::Diverged => e.fails.push((Kind::DivOverlap, None, String::new())),
        Called::Panic(m) => e.fails.push((Kind::PanicOverlap, None, m.clone())),
    }

    // is_compatible(A,B) => every enumerated value of A is a value of B
    if e.compat == Some(true) && !same {
        let w = if ma.list.len() <= 48 {
            ma.list.iter().copied().find(|&v| mb.is_out(v))
        } else {
            first_in_not(ma, mb)
        };
        if let Some(v) = w {
            e.fails.push((Kind::Unsound, Some(v), String::new()));
        }
    }
    // a common value => types_overlap(A,B)
    let (s, l) = if ma.list.len() <= mb.list.len() { (ma, mb) } else { (mb, ma) };
    e.common = if s.list.len() <= 48 {
        s.list.iter().copied().find(|&v| l.is_in(v))
    } else {
        first_common(ma, mb)
    };
    if e.overlap == Some(false) {
        if let Some(v) = e.common {
            e.fails.push((Kind::Overlap, Some(v), String::new()));
        }
    }
    e.nontrivial = !same && ((e.compat == Some(true) && !ma.list.is_empty()) || e.common.is_some());
    e.t_ns[1] = t0.elapsed().as_nanos() as u64 - e.t_ns[0];

    // --- the narrowing helpers ----------------------------------------------------------------
    let relation_ok = matches!(c, Called::Ok(_)) && matches!(o, Called::Ok(_));
    let cyc = a.has_cycle() || b.has_cycle();
    let selected = !same
        && !opts.no_narrowing
        && (opts.force_narrowing
            || e.compat == Some(true)
            || e.overlap == Some(true)
            || e.common.is_some()
            || (cyc && tuple_shape_match(a, b))
            || (!relation_ok && no_prescreen()));
    if !selected {
        return e;
    }
    let e = {
        let mut e = eval_narrowing(vals, a, ma, b, mb, rm, opts, e, relation_ok, cyc);
        e.t_ns[2] = t0.elapsed().as_nanos() as u64 - e.t_ns[0] - e.t_ns[1];
        e
    };
    e
}

#[allow(clippy::too_many_arguments)]
fn eval_narrowing(
    vals: &Values,
    a: &Ty,
    ma: &Mem<'_>,
    b: &Ty,
    mb: &Mem<'_>,
    rm: &dyn ResultMem,
    opts: &Opts<'_>,
    mut e: PairEval,
    relation_ok: bool,
    cyc: bool,
) -> PairEval {
    // C09_NO_PRESCREEN (testing aid for the supervisor's crash recovery): call the helpers even
    // where the relation is known to recurse without bound.
    let no_prescreen = no_prescreen();
    if !relation_ok && !no_prescreen {
        e.narrowing_skipped_divergent = true;
        return e;
    }
    // private small registry for the helpers (they mutate the Program)
    let mut q = Program::new();
    q.never();
    let qa = real::register(&mut q, a);
    let qb = real::register(&mut q, b);
    if !no_prescreen && a.has_cycle() && b.has_cycle() && prescreen_diverges(&q, qa, qb, 0) {
        e.narrowing_skipped_divergent = true;
        e.fails.push((Kind::DivNarrow, None, String::new()));
        return e;
    }
    e.narrowing_called = true;

    if !opts.skip_intersect {
        if let (Some(m), true) = (opts.marker, cyc) {
            m("I");
        }
        match real::call_intersect(&mut q, qa, qb) {
            Called::Panic(m) => e.fails.push((Kind::PanicIntersect, None, m)),
            Called::Diverged => {}
            Called::Ok(rid) => match real::decode(&q, rid) {
                Some(r) if r.well_formed(true) => {
                    if &r != a && &r != b {
                        let (judged, w) = with_result_mem(vals, rm, &r, |mr| {
                            first_dropped(ma, mb, true, mr)
                        });
                        e.intersect_judged += judged;
                        if let Some(v) = w {
                            e.fails.push((Kind::Intersect, Some(v), format!("{}", r)));
                        }
                    }
                }
                _ => e.intersect_abstained = true,
            },
        }
    }
    if !opts.skip_complement {
        if let (Some(m), true) = (opts.marker, cyc) {
            m("C");
        }
        match real::call_complement(&mut q, qa, qb) {
            Called::Panic(m) => e.fails.push((Kind::PanicComplement, None, m)),
            Called::Diverged => {}
            Called::Ok(rid) => match real::decode(&q, rid) {
                Some(r) if r.well_formed(true) => {
                    if &r != a {
                        let (judged, w) = with_result_mem(vals, rm, &r, |mr| {
                            first_dropped(ma, mb, false, mr)
                        });
                        e.complement_judged += judged;
                        if let Some(v) = w {
                            e.fails.push((Kind::Complement, Some(v), format!("{}", r)));
                        }
                    }
                }
                _ => e.complement_abstained = true,
            },
        }
    }
    e
}

/// Lowest value definitely in both (word-wise).
fn first_common(ma: &Mem<'_>, mb: &Mem<'_>) -> Option<Vid> {
    for w in 0..ma.bits.len() {
        let x = ma.bits[w] & mb.bits[w];
        if x != 0 {
            return Some((w as u32) * 64 + x.trailing_zeros());
        }
    }
    None
}

/// Lowest value definitely in A and definitely not in B (word-wise).
fn first_in_not(ma: &Mem<'_>, mb: &Mem<'_>) -> Option<Vid> {
    for w in 0..ma.bits.len() {
        let mut x = ma.bits[w] & !mb.bits[w];
        while x != 0 {
            let v = (w as u32) * 64 + x.trailing_zeros();
            x &= x - 1;
            if mb.is_out(v) {
                return Some(v);
            }
        }
    }
    None
}

fn variants_of(t: &Ty) -> &[Ty] {
    match t {
        Ty::Union(vs) => vs,
        _ => std::slice::from_ref(t),
    }
}

/// Some top-level variant of A and some top-level variant of B are tuples of the same name and
/// arity: the only shape on which the narrowing helpers work structurally.
pub fn tuple_shape_match(a: &Ty, b: &Ty) -> bool {
    variants_of(a).iter().any(|x| {
        variants_of(b).iter().any(|y| match (x, y) {
            (Ty::Tuple(n1, f1), Ty::Tuple(n2, f2)) => n1 == n2 && f1.len() == f2.len(),
            _ => false,
        })
    })
}

/// First value v (lowest id) with v definitely in A, v definitely in B (`both`) resp. definitely
/// not in B, and v definitely not in R. Also returns how many values were compared.
fn first_dropped(ma: &Mem<'_>, mb: &Mem<'_>, both: bool, mr: &Mem<'_>) -> (u32, Option<Vid>) {
    let mut judged = 0u32;
    let mut found: Option<Vid> = None;
    for w in 0..ma.bits.len() {
        let sel = if both { ma.bits[w] & mb.bits[w] } else { ma.bits[w] & !mb.bits[w] };
        if sel == 0 {
            continue;
        }
        judged += sel.count_ones();
        if found.is_some() {
            continue;
        }
        let mut cand = sel & !mr.bits[w];
        while cand != 0 {
            let bit = cand.trailing_zeros();
            cand &= cand - 1;
            let v = (w as u32) * 64 + bit;
            if (both || mb.is_out(v)) && mr.is_out(v) {
                found = Some(v);
                break;
            }
        }
    }
    (judged, found)
}

type Table = std::rc::Rc<(Vec<u64>, Vec<u32>, Vec<u32>)>;
thread_local! {
    static RESULT_TABLES: std::cell::RefCell<(usize, std::collections::HashMap<Ty, Table>)> =
        std::cell::RefCell::new((0, std::collections::HashMap::new()));
}

/// Membership table of a narrowing result: the universe's table when the result is a universe
/// member, otherwise computed once per thread and cached.
fn with_result_mem<R>(vals: &Values, rm: &dyn ResultMem, r: &Ty, f: impl FnOnce(&Mem<'_>) -> R) -> R {
    if let Some(m) = rm.lookup(r) {
        return f(&m);
    }
    let key = vals as *const Values as usize;
    let table: Table = RESULT_TABLES.with(|c| {
        let mut c = c.borrow_mut();
        if c.0 != key || c.1.len() > 4000 {
            c.0 = key;
            c.1.clear();
        }
        if let Some(t) = c.1.get(r) {
            return t.clone();
        }
        let words = (vals.len() + 63) / 64;
        let t = std::rc::Rc::new(super::universe::membership(vals, r, words));
        c.1.insert(r.clone(), t.clone());
        t
    });
    let m = Mem { bits: &table.0, unk: &table.1, list: &table.2 };
    f(&m)
}

/// Stand-alone judgement of (A, B): registers both in a fresh Program and computes the membership
/// facts on the fly over `vals`.
pub fn eval_standalone(vals: &Values, a: &Ty, b: &Ty, opts: &Opts<'_>) -> PairEval {
    let mut p = Program::new();
    p.never();
    let ida = real::register(&mut p, a);
    let idb = real::register(&mut p, b);
    let words = (vals.len() + 63) / 64;
    let (ab, au, al) = super::universe::membership(vals, a, words);
    let (bb, bu, bl) = super::universe::membership(vals, b, words);
    let ma = Mem { bits: &ab, unk: &au, list: &al };
    let mb = Mem { bits: &bb, unk: &bu, list: &bl };
    eval_pair(vals, &p, a, ida, &ma, b, idb, &mb, &NoTable, opts)
}
