//! C09 — the enumerated type universe, the value universe and the membership tables.

use super::real;
use super::ty::{Enumerator, Ty, Vocab, unroll_once};
use super::vals::{self, Tri, Val, Values, Vid};
use quiver_core::program::Program;
use rayon::prelude::*;
use std::collections::HashMap;

#[derive(Clone, Debug)]
pub struct Params {
    pub depth: usize,
    pub weight: usize,
    /// every type of depth <= full_depth is included whatever its weight
    pub full_depth: usize,
    /// one-step unfoldings of the recursive types of weight <= unroll_weight are added
    pub unroll_weight: usize,
    pub inhabitant_cap: usize,
    /// function / process tokens are created for closed callable / process terms up to this weight
    pub token_weight: usize,
    /// transitivity is checked among the types of weight <= trans_weight (a prefix of the order)
    pub trans_weight: usize,
}

pub struct Universe {
    pub params: Params,
    pub types: Vec<Ty>,
    pub index: HashMap<Ty, u32>,
    pub n_enumerated: usize,
    pub n_unrolled: usize,
    pub trans_limit: usize,
    pub program: Program,
    pub ids: Vec<usize>,
    pub cyclic: Vec<bool>,
    pub vals: Values,
    pub n_base_values: usize,
    pub words: usize,
    pub in_bits: Vec<Vec<u64>>,
    pub unk: Vec<Vec<u32>>,
    pub in_list: Vec<Vec<u32>>,
    /// per type: its one-step simplifications that are universe members, in the shrinker's order
    pub steps: Vec<std::sync::OnceLock<Vec<u32>>>,
}

pub fn bit(bits: &[u64], v: u32) -> bool {
    bits[(v >> 6) as usize] >> (v & 63) & 1 == 1
}

/// Build the base value universe: V_1 complete (names {none,A,B}, labels {none,x,y} without
/// repeats, arity 0-2 over the three data leaves) and V_2 complete for inner tuples of arity <= 1.
pub fn base_values(vals: &mut Values) {
    let l0 = vec![vals.intern(Val::Int), vals.intern(Val::Bin), vals.intern(Val::Ref)];
    let l1 = vals::all_tuples_over(vals, &l0, 2);
    let mut witnesses = l0.clone();
    witnesses.extend(l1.iter().cloned());
    let mut inner = l0.clone();
    for &v in &l1 {
        if let Val::Tup(_, fs) = &vals.vals[v as usize] {
            if fs.len() <= 1 {
                inner.push(v);
            }
        }
    }
    vals::all_tuples_over(vals, &inner, 2);
    vals.data_witnesses = witnesses;
}

/// Membership evaluation of every value against one closed type.
pub fn membership(vals: &Values, t: &Ty, words: usize) -> (Vec<u64>, Vec<u32>, Vec<u32>) {
    let mut bits = vec![0u64; words];
    let mut unk = vec![];
    let mut list = vec![];
    let o = vals::Oracle::new(vals);
    let mut ctx: Vec<&Ty> = vec![];
    for v in 0..vals.len() as u32 {
        match o.member(v, t, &mut ctx) {
            Tri::Yes => {
                bits[(v >> 6) as usize] |= 1 << (v & 63);
                list.push(v);
            }
            Tri::Unknown => unk.push(v),
            Tri::No => {}
        }
    }
    (bits, unk, list)
}

impl Universe {
    pub fn build(params: Params) -> Universe {
        let t0 = std::time::Instant::now();
        let dbg = std::env::var("C09_TIMING").is_ok();
        let mut e = Enumerator::new(Vocab::full());
        let mut types: Vec<Ty> = vec![];
        let mut index: HashMap<Ty, u32> = HashMap::new();
        let mut push = |t: Ty, types: &mut Vec<Ty>, index: &mut HashMap<Ty, u32>| {
            if !index.contains_key(&t) {
                index.insert(t.clone(), types.len() as u32);
                types.push(t);
            }
        };
        for t in e.closed_up_to(params.depth, params.weight) {
            debug_assert!(t.well_formed(false), "{}", t);
            push(t, &mut types, &mut index);
        }
        for t in e.closed_up_to(params.full_depth, 12) {
            push(t, &mut types, &mut index);
        }
        // lightest first (stable), so that a smaller universe is a prefix of a larger one
        types.sort_by_key(|t| t.weight());
        index.clear();
        for (i, t) in types.iter().enumerate() {
            index.insert(t.clone(), i as u32);
        }
        let trans_limit = types.iter().take_while(|t| t.weight() <= params.trans_weight).count();
        let n_enumerated = types.len();
        let mut unrolled = vec![];
        for t in &types {
            if t.weight() <= params.unroll_weight && t.has_cycle() {
                if let Some(u) = unroll_once(t) {
                    if u.well_formed(false) {
                        unrolled.push(u);
                    }
                }
            }
        }
        for u in unrolled {
            push(u, &mut types, &mut index);
        }
        // Heavier hand-shaped families the weight bound excludes: records with a function-typed
        // field and a data field, alone and as two-alternative unions in both orders (the same
        // sub-relation is then asked more than once inside one query, with the alternative that
        // decides it first or second).
        {
            let f = |p: Ty, r: Ty| Ty::Fun(Box::new(p), Box::new(r));
            let funs = vec![f(Ty::Int, Ty::Int), f(Ty::Union(vec![Ty::Int, Ty::Bin]), Ty::Int), Ty::Int];
            let tags = vec![Ty::Int, Ty::Bin];
            let mut records = vec![];
            for a in &funs {
                for b in &tags {
                    records.push(Ty::Tuple(1, vec![(1, a.clone()), (2, b.clone())]));
                }
            }
            let mut shaped = records.clone();
            for (i, a) in records.iter().enumerate() {
                for (j, b) in records.iter().enumerate() {
                    if i != j {
                        shaped.push(Ty::Union(vec![a.clone(), b.clone()]));
                    }
                }
            }
            for t in shaped {
                if t.well_formed(false) {
                    push(t, &mut types, &mut index);
                }
            }
        }
        let n_unrolled = types.len() - n_enumerated;

        if dbg { eprintln!("enumerated {:.2}", t0.elapsed().as_secs_f64()); }
        let mut program = Program::new();
        program.never();
        let ids: Vec<usize> = types.iter().map(|t| real::register(&mut program, t)).collect();
        let cyclic: Vec<bool> = types.iter().map(|t| t.has_cycle()).collect();

        if dbg { eprintln!("registered {:.2}", t0.elapsed().as_secs_f64()); }
        let mut vals = Values::default();
        vals.token_cap = params.token_weight;
        base_values(&mut vals);
        let n_base_values = vals.len();
        for t in &types {
            vals::collect_tokens(&mut vals, t, params.token_weight);
        }
        for t in &types {
            vals::inhabitants(&mut vals, t, &vec![], 2, params.inhabitant_cap);
        }
        vals.finalize();
        if dbg { eprintln!("values {:.2}", t0.elapsed().as_secs_f64()); }
        let words = (vals.len() + 63) / 64;
        let rows: Vec<(Vec<u64>, Vec<u32>, Vec<u32>)> =
            types.par_iter().map(|t| membership(&vals, t, words)).collect();
        if dbg { eprintln!("tables {:.2}", t0.elapsed().as_secs_f64()); }
        let mut in_bits = Vec::with_capacity(rows.len());
        let mut unk = Vec::with_capacity(rows.len());
        let mut in_list = Vec::with_capacity(rows.len());
        for (b, u, l) in rows {
            in_bits.push(b);
            unk.push(u);
            in_list.push(l);
        }
        let n_types = types.len();
        Universe {
            params,
            types,
            index,
            n_enumerated,
            n_unrolled,
            trans_limit,
            program,
            ids,
            cyclic,
            vals,
            n_base_values,
            words,
            in_bits,
            unk,
            in_list,
            steps: (0..n_types).map(|_| std::sync::OnceLock::new()).collect(),
        }
    }

    pub fn n(&self) -> usize {
        self.types.len()
    }

    /// One-step simplifications of type `i` (well-formed, strictly simpler, universe members).
    pub fn single_steps(&self, i: usize) -> &Vec<u32> {
        self.steps[i].get_or_init(|| {
            let t = &self.types[i];
            let mut out = vec![];
            for c in super::ty::shrink_steps(t) {
                if super::shrink::smaller(&[&c], &[t]) && c.well_formed(false) {
                    if let Some(&k) = self.index.get(&c) {
                        out.push(k);
                    }
                }
            }
            out
        })
    }

    pub fn def_in(&self, t: usize, v: Vid) -> bool {
        bit(&self.in_bits[t], v)
    }

    pub fn def_out(&self, t: usize, v: Vid) -> bool {
        !bit(&self.in_bits[t], v) && self.unk[t].binary_search(&v).is_err()
    }

    /// first value definitely in A and definitely not in B
    pub fn first_in_not(&self, a: usize, b: usize) -> Option<Vid> {
        self.in_list[a].iter().copied().find(|&v| self.def_out(b, v))
    }

    /// first value definitely in both
    pub fn first_common(&self, a: usize, b: usize) -> Option<Vid> {
        let (s, o) = if self.in_list[a].len() <= self.in_list[b].len() { (a, b) } else { (b, a) };
        self.in_list[s].iter().copied().find(|&v| bit(&self.in_bits[o], v))
    }
}
