//! C09 — own representation of closed, contractive Quiver types: canonical text, parser,
//! well-formedness (closed + contractive + normal form), weight/depth, the bounded-exhaustive
//! enumerator, and the edit operations the shrinker uses.
//!
//! Nothing in this file depends on `quiver_core::types`' relation code.

use std::collections::HashMap;
use std::fmt;
use std::rc::Rc;

/// Tuple name code: 0 = unnamed, 1 = `A`, 2 = `B` (types only use 0/1; values use 0/1/2).
pub type Name = u8;
/// Field label code: 0 = unlabelled, 1 = `x`, 2 = `y`.
pub type Label = u8;

pub fn name_str(n: Name) -> &'static str {
    match n {
        0 => "None",
        1 => "A",
        2 => "B",
        _ => "C",
    }
}
pub fn label_str(l: Label) -> &'static str {
    match l {
        0 => "",
        1 => "x",
        2 => "y",
        _ => "z",
    }
}

/// A type term. `Cycle(k)` refers to the k-th enclosing *boundary* (a `Union` or a `Fun` node),
/// counted upward from the node's own position, 1 = innermost — exactly the convention of
/// `quiver-compiler/src/compiler/typing.rs` (`recursion_depth` is incremented by union and
/// function types only) and of `resolve_function_cycles` in `compiler.rs`.
#[derive(Clone, PartialEq, Eq, Hash, PartialOrd, Ord, Debug)]
pub enum Ty {
    Int,
    Bin,
    Ref,
    Tuple(Name, Vec<(Label, Ty)>),
    Partial(Name, Vec<(Label, Ty)>),
    Union(Vec<Ty>),
    Cycle(usize),
    /// Callable(parameter -> result); the receive component is always `never`, as for every
    /// function type written in source (`#P -> R`).
    Fun(Box<Ty>, Box<Ty>),
    /// Process(send, receive): both directions known.
    Proc(Box<Ty>, Box<Ty>),
}

impl fmt::Display for Ty {
    fn fmt(&self, f: &mut fmt::Formatter<'_>) -> fmt::Result {
        match self {
            Ty::Int => write!(f, "int"),
            Ty::Bin => write!(f, "bin"),
            Ty::Ref => write!(f, "ref"),
            Ty::Tuple(n, fs) => {
                write!(f, "Tuple({},[", name_str(*n))?;
                for (i, (l, t)) in fs.iter().enumerate() {
                    if i > 0 {
                        write!(f, ",")?;
                    }
                    if *l != 0 {
                        write!(f, "{}:", label_str(*l))?;
                    }
                    write!(f, "{}", t)?;
                }
                write!(f, "])")
            }
            Ty::Partial(n, fs) => {
                write!(f, "Partial({},[", name_str(*n))?;
                for (i, (l, t)) in fs.iter().enumerate() {
                    if i > 0 {
                        write!(f, ",")?;
                    }
                    write!(f, "{}:{}", label_str(*l), t)?;
                }
                write!(f, "])")
            }
            Ty::Union(vs) => {
                write!(f, "Union[")?;
                for (i, t) in vs.iter().enumerate() {
                    if i > 0 {
                        write!(f, ",")?;
                    }
                    write!(f, "{}", t)?;
                }
                write!(f, "]")
            }
            Ty::Cycle(k) => write!(f, "Cycle({})", k),
            Ty::Fun(p, r) => write!(f, "Fn({}->{})", p, r),
            Ty::Proc(s, r) => write!(f, "Proc({},{})", s, r),
        }
    }
}

// ------------------------------------------------------------------------------------------
// Parser for the canonical text (used by replay and the probe sub-command).

pub struct P<'a> {
    s: &'a [u8],
    i: usize,
}

impl<'a> P<'a> {
    pub fn new(s: &'a str) -> Self {
        P { s: s.as_bytes(), i: 0 }
    }
    fn ws(&mut self) {
        while self.i < self.s.len() && (self.s[self.i] as char).is_whitespace() {
            self.i += 1;
        }
    }
    pub fn eat(&mut self, lit: &str) -> bool {
        self.ws();
        if self.s[self.i..].starts_with(lit.as_bytes()) {
            self.i += lit.len();
            true
        } else {
            false
        }
    }
    pub fn expect(&mut self, lit: &str) -> Result<(), String> {
        if self.eat(lit) {
            Ok(())
        } else {
            Err(format!("expected '{}' at {}", lit, self.i))
        }
    }
    pub fn ident(&mut self) -> String {
        self.ws();
        let st = self.i;
        while self.i < self.s.len()
            && ((self.s[self.i] as char).is_alphanumeric() || self.s[self.i] == b'_')
        {
            self.i += 1;
        }
        String::from_utf8_lossy(&self.s[st..self.i]).to_string()
    }
    pub fn peek_label(&mut self) -> Option<Label> {
        // label ':' (labels are x / y / z)
        self.ws();
        let save = self.i;
        let id = self.ident();
        if self.eat(":") {
            match id.as_str() {
                "x" => return Some(1),
                "y" => return Some(2),
                "z" => return Some(3),
                _ => {}
            }
        }
        self.i = save;
        None
    }
    pub fn name(&mut self) -> Result<Name, String> {
        match self.ident().as_str() {
            "None" => Ok(0),
            "A" => Ok(1),
            "B" => Ok(2),
            "C" => Ok(3),
            o => Err(format!("bad name '{}'", o)),
        }
    }
    pub fn at_end(&mut self) -> bool {
        self.ws();
        self.i >= self.s.len()
    }
    pub fn ty(&mut self) -> Result<Ty, String> {
        self.ws();
        let id = self.ident();
        match id.as_str() {
            "int" => Ok(Ty::Int),
            "bin" => Ok(Ty::Bin),
            "ref" => Ok(Ty::Ref),
            "Tuple" | "Partial" => {
                self.expect("(")?;
                let n = self.name()?;
                self.expect(",")?;
                self.expect("[")?;
                let mut fs = vec![];
                if !self.eat("]") {
                    loop {
                        let l = self.peek_label().unwrap_or(0);
                        let t = self.ty()?;
                        fs.push((l, t));
                        if self.eat(",") {
                            continue;
                        }
                        self.expect("]")?;
                        break;
                    }
                }
                self.expect(")")?;
                if id == "Tuple" {
                    Ok(Ty::Tuple(n, fs))
                } else {
                    if fs.iter().any(|(l, _)| *l == 0) {
                        return Err("partial field without label".into());
                    }
                    Ok(Ty::Partial(n, fs))
                }
            }
            "Union" => {
                self.expect("[")?;
                let mut vs = vec![];
                if !self.eat("]") {
                    loop {
                        vs.push(self.ty()?);
                        if self.eat(",") {
                            continue;
                        }
                        self.expect("]")?;
                        break;
                    }
                }
                Ok(Ty::Union(vs))
            }
            "Cycle" => {
                self.expect("(")?;
                let k: usize = self.ident().parse().map_err(|_| "bad cycle depth".to_string())?;
                self.expect(")")?;
                Ok(Ty::Cycle(k))
            }
            "Fn" => {
                self.expect("(")?;
                let p = self.ty()?;
                self.expect("->")?;
                let r = self.ty()?;
                self.expect(")")?;
                Ok(Ty::Fun(Box::new(p), Box::new(r)))
            }
            "Proc" => {
                self.expect("(")?;
                let s = self.ty()?;
                self.expect(",")?;
                let r = self.ty()?;
                self.expect(")")?;
                Ok(Ty::Proc(Box::new(s), Box::new(r)))
            }
            o => Err(format!("unknown type head '{}' at {}", o, self.i)),
        }
    }
}

pub fn parse_ty(s: &str) -> Result<Ty, String> {
    let mut p = P::new(s);
    let t = p.ty()?;
    if !p.at_end() {
        return Err(format!("trailing input in type '{}'", s));
    }
    Ok(t)
}

// ------------------------------------------------------------------------------------------
// Measures and well-formedness.

impl Ty {
    /// Nesting depth: atoms, cycles and field-less tuples/partials are 0.
    pub fn depth(&self) -> usize {
        match self {
            Ty::Int | Ty::Bin | Ty::Ref | Ty::Cycle(_) => 0,
            Ty::Tuple(_, fs) | Ty::Partial(_, fs) => {
                fs.iter().map(|(_, t)| t.depth() + 1).max().unwrap_or(0)
            }
            Ty::Union(vs) => vs.iter().map(|t| t.depth() + 1).max().unwrap_or(0),
            Ty::Fun(a, b) | Ty::Proc(a, b) => 1 + a.depth().max(b.depth()),
        }
    }

    /// Description weight: 1 per node (`ref` 2), +1 for the name `A`, +1 per field label.
    pub fn weight(&self) -> usize {
        match self {
            Ty::Int | Ty::Bin | Ty::Cycle(_) => 1,
            Ty::Ref => 2,
            Ty::Tuple(n, fs) | Ty::Partial(n, fs) => {
                1 + (*n != 0) as usize
                    + fs.iter().map(|(l, t)| (*l != 0) as usize + t.weight()).sum::<usize>()
            }
            Ty::Union(vs) => 1 + vs.iter().map(|t| t.weight()).sum::<usize>(),
            Ty::Fun(a, b) | Ty::Proc(a, b) => 1 + a.weight() + b.weight(),
        }
    }

    pub fn nodes(&self) -> usize {
        match self {
            Ty::Int | Ty::Bin | Ty::Ref | Ty::Cycle(_) => 1,
            Ty::Tuple(_, fs) | Ty::Partial(_, fs) => 1 + fs.iter().map(|(_, t)| t.nodes()).sum::<usize>(),
            Ty::Union(vs) => 1 + vs.iter().map(|t| t.nodes()).sum::<usize>(),
            Ty::Fun(a, b) | Ty::Proc(a, b) => 1 + a.nodes() + b.nodes(),
        }
    }

    pub fn has_cycle(&self) -> bool {
        match self {
            Ty::Cycle(_) => true,
            Ty::Int | Ty::Bin | Ty::Ref => false,
            Ty::Tuple(_, fs) | Ty::Partial(_, fs) => fs.iter().any(|(_, t)| t.has_cycle()),
            Ty::Union(vs) => vs.iter().any(|t| t.has_cycle()),
            Ty::Fun(a, b) | Ty::Proc(a, b) => a.has_cycle() || b.has_cycle(),
        }
    }

    pub fn has_fun_or_proc(&self) -> bool {
        match self {
            Ty::Fun(..) | Ty::Proc(..) => true,
            Ty::Int | Ty::Bin | Ty::Ref | Ty::Cycle(_) => false,
            Ty::Tuple(_, fs) | Ty::Partial(_, fs) => fs.iter().any(|(_, t)| t.has_fun_or_proc()),
            Ty::Union(vs) => vs.iter().any(|t| t.has_fun_or_proc()),
        }
    }

    /// Largest number of boundaries a cycle inside `self` escapes *above* `self` (0 = closed).
    pub fn escape(&self) -> usize {
        fn go(t: &Ty, inside: usize) -> usize {
            match t {
                Ty::Cycle(k) => k.saturating_sub(inside),
                Ty::Int | Ty::Bin | Ty::Ref => 0,
                Ty::Tuple(_, fs) | Ty::Partial(_, fs) => {
                    fs.iter().map(|(_, t)| go(t, inside)).max().unwrap_or(0)
                }
                Ty::Union(vs) => vs.iter().map(|t| go(t, inside + 1)).max().unwrap_or(0),
                Ty::Fun(a, b) => go(a, inside + 1).max(go(b, inside + 1)),
                Ty::Proc(a, b) => go(a, inside).max(go(b, inside)),
            }
        }
        go(self, 0)
    }

    pub fn is_closed(&self) -> bool {
        self.escape() == 0
    }

    /// Well-formed member of the property's domain, in the compiler's union normal form:
    /// closed; every `Cycle` guarded (a tuple, partial, function or process constructor lies
    /// between the referenced boundary and the reference); unions have >= 2 pairwise distinct
    /// variants none of which is itself a union (`union_type_ids` flattens, de-duplicates and
    /// collapses singletons); no duplicate field labels; `allow_never` admits `Union[]`.
    pub fn well_formed(&self, allow_never: bool) -> bool {
        fn go(t: &Ty, guards: &mut Vec<bool>, allow_never: bool) -> bool {
            match t {
                Ty::Int | Ty::Bin | Ty::Ref => true,
                Ty::Cycle(k) => *k >= 1 && *k <= guards.len() && guards[guards.len() - *k],
                Ty::Tuple(_, fs) | Ty::Partial(_, fs) => {
                    for (i, (l, _)) in fs.iter().enumerate() {
                        if *l != 0 && fs[..i].iter().any(|(l2, _)| l2 == l) {
                            return false;
                        }
                    }
                    if matches!(t, Ty::Partial(..)) && fs.iter().any(|(l, _)| *l == 0) {
                        return false;
                    }
                    let saved = guards.clone();
                    for g in guards.iter_mut() {
                        *g = true;
                    }
                    let ok = fs.iter().all(|(_, t)| go(t, guards, allow_never));
                    *guards = saved;
                    ok
                }
                Ty::Proc(a, b) => {
                    let saved = guards.clone();
                    for g in guards.iter_mut() {
                        *g = true;
                    }
                    let ok = go(a, guards, allow_never) && go(b, guards, allow_never);
                    *guards = saved;
                    ok
                }
                Ty::Union(vs) => {
                    if vs.is_empty() {
                        return allow_never;
                    }
                    if vs.len() < 2 {
                        return false;
                    }
                    for (i, v) in vs.iter().enumerate() {
                        if matches!(v, Ty::Union(_)) || vs[..i].contains(v) {
                            return false;
                        }
                    }
                    guards.push(false);
                    let ok = vs.iter().all(|t| go(t, guards, allow_never));
                    guards.pop();
                    ok
                }
                Ty::Fun(a, b) => {
                    guards.push(true);
                    let ok = go(a, guards, allow_never) && go(b, guards, allow_never);
                    guards.pop();
                    ok
                }
            }
        }
        go(self, &mut vec![], allow_never)
    }
}

// ------------------------------------------------------------------------------------------
// Enumerator: every term of depth <= d and weight == w in a context described by the guard flags
// of the enclosing boundaries (outermost first).

#[derive(Clone, Debug)]
pub struct Vocab {
    pub names: Vec<Name>,        // tuple/partial names in types
    pub labels: Vec<Label>,      // field labels (0 = none) for tuple fields
    pub plabels: Vec<Label>,     // labels for partial fields
    pub max_arity: usize,        // tuple arity bound
    pub max_pfields: usize,      // partial field-count bound
    pub max_union: usize,        // union variant bound
    pub ordered_unions: bool,    // all variant orders (true) or only the sorted one
    pub funs: bool,
    pub procs: bool,
    pub cycles: bool,
}

impl Vocab {
    pub fn full() -> Self {
        Vocab {
            names: vec![0, 1],
            labels: vec![0, 1, 2],
            plabels: vec![1, 2],
            max_arity: 2,
            max_pfields: 2,
            max_union: 3,
            ordered_unions: true,
            funs: true,
            procs: true,
            cycles: true,
        }
    }
}

pub struct Enumerator {
    pub vocab: Vocab,
    memo: HashMap<(usize, usize, Vec<bool>), Rc<Vec<Ty>>>,
}

impl Enumerator {
    pub fn new(vocab: Vocab) -> Self {
        Enumerator { vocab, memo: HashMap::new() }
    }

    /// All closed well-formed types of depth <= d and weight <= w, simplest (lightest) first.
    pub fn closed_up_to(&mut self, d: usize, w: usize) -> Vec<Ty> {
        let mut out = vec![];
        for ww in 1..=w {
            out.extend(self.exact(d, ww, &vec![]).iter().cloned());
        }
        out
    }

    pub fn exact(&mut self, d: usize, w: usize, guards: &Vec<bool>) -> Rc<Vec<Ty>> {
        let key = (d, w, guards.clone());
        if let Some(r) = self.memo.get(&key) {
            return r.clone();
        }
        let mut out: Vec<Ty> = vec![];
        let v = self.vocab.clone();
        // leaves
        if w == 1 {
            out.push(Ty::Int);
            out.push(Ty::Bin);
            if v.cycles {
                let n = guards.len();
                for k in 1..=n {
                    if guards[n - k] {
                        out.push(Ty::Cycle(k));
                    }
                }
            }
        }
        if w == 2 {
            out.push(Ty::Ref);
        }
        // field-less tuples / partials (depth 0)
        for &n in &v.names {
            if w == 1 + (n != 0) as usize {
                out.push(Ty::Tuple(n, vec![]));
                out.push(Ty::Partial(n, vec![]));
            }
        }
        if d >= 1 {
            let all_guarded: Vec<bool> = guards.iter().map(|_| true).collect();
            // tuples and partials with fields
            for partial in [false, true] {
                let labels = if partial { v.plabels.clone() } else { v.labels.clone() };
                let max_f = if partial { v.max_pfields } else { v.max_arity };
                for &n in &v.names {
                    let base = 1 + (n != 0) as usize;
                    if max_f >= 1 {
                        for &l in &labels {
                            let lc = (l != 0) as usize;
                            if w > base + lc {
                                let cw = w - base - lc;
                                for c in self.exact(d - 1, cw, &all_guarded).iter() {
                                    let fs = vec![(l, c.clone())];
                                    out.push(if partial { Ty::Partial(n, fs) } else { Ty::Tuple(n, fs) });
                                }
                            }
                        }
                    }
                    if max_f >= 2 {
                        for &l1 in &labels {
                            for &l2 in &labels {
                                if l1 != 0 && l1 == l2 {
                                    continue;
                                }
                                let lc = (l1 != 0) as usize + (l2 != 0) as usize;
                                if w < base + lc + 2 {
                                    continue;
                                }
                                let rest = w - base - lc;
                                for w1 in 1..rest {
                                    let w2 = rest - w1;
                                    let c1s = self.exact(d - 1, w1, &all_guarded);
                                    let c2s = self.exact(d - 1, w2, &all_guarded);
                                    for c1 in c1s.iter() {
                                        for c2 in c2s.iter() {
                                            let fs = vec![(l1, c1.clone()), (l2, c2.clone())];
                                            out.push(if partial {
                                                Ty::Partial(n, fs)
                                            } else {
                                                Ty::Tuple(n, fs)
                                            });
                                        }
                                    }
                                }
                            }
                        }
                    }
                }
            }
            // unions
            if w >= 3 {
                let mut g2 = guards.clone();
                g2.push(false);
                let rest = w - 1;
                // two variants
                if v.max_union >= 2 {
                    for w1 in 1..rest {
                        let w2 = rest - w1;
                        let a = self.exact(d - 1, w1, &g2);
                        let b = self.exact(d - 1, w2, &g2);
                        for x in a.iter() {
                            if matches!(x, Ty::Union(_)) {
                                continue;
                            }
                            for y in b.iter() {
                                if matches!(y, Ty::Union(_)) || x == y {
                                    continue;
                                }
                                if !v.ordered_unions && x > y {
                                    continue;
                                }
                                out.push(Ty::Union(vec![x.clone(), y.clone()]));
                            }
                        }
                    }
                }
                if v.max_union >= 3 && rest >= 3 {
                    for w1 in 1..rest - 1 {
                        for w2 in 1..rest - w1 {
                            let w3 = rest - w1 - w2;
                            let a = self.exact(d - 1, w1, &g2);
                            let b = self.exact(d - 1, w2, &g2);
                            let c = self.exact(d - 1, w3, &g2);
                            for x in a.iter() {
                                if matches!(x, Ty::Union(_)) {
                                    continue;
                                }
                                for y in b.iter() {
                                    if matches!(y, Ty::Union(_)) || x == y {
                                        continue;
                                    }
                                    if !v.ordered_unions && x > y {
                                        continue;
                                    }
                                    for z in c.iter() {
                                        if matches!(z, Ty::Union(_)) || z == x || z == y {
                                            continue;
                                        }
                                        if !v.ordered_unions && y > z {
                                            continue;
                                        }
                                        out.push(Ty::Union(vec![x.clone(), y.clone(), z.clone()]));
                                    }
                                }
                            }
                        }
                    }
                }
            }
            // callables (boundary, guards everything below) and processes (guard, no boundary)
            if w >= 3 {
                let rest = w - 1;
                if v.funs {
                    let mut g2 = guards.clone();
                    g2.push(true);
                    for w1 in 1..rest {
                        let a = self.exact(d - 1, w1, &g2);
                        let b = self.exact(d - 1, rest - w1, &g2);
                        for x in a.iter() {
                            for y in b.iter() {
                                out.push(Ty::Fun(Box::new(x.clone()), Box::new(y.clone())));
                            }
                        }
                    }
                }
                if v.procs {
                    for w1 in 1..rest {
                        let a = self.exact(d - 1, w1, &all_guarded);
                        let b = self.exact(d - 1, rest - w1, &all_guarded);
                        for x in a.iter() {
                            for y in b.iter() {
                                out.push(Ty::Proc(Box::new(x.clone()), Box::new(y.clone())));
                            }
                        }
                    }
                }
            }
        }
        let r = Rc::new(out);
        self.memo.insert(key, r.clone());
        r
    }
}

// ------------------------------------------------------------------------------------------
// Shrink candidates: every one-step simplification of a type, in a fixed order. Candidates that
// are not well-formed are filtered by the caller.

fn simplest_of_sort() -> Vec<Ty> {
    vec![Ty::Int, Ty::Tuple(0, vec![])]
}

/// Shift the escaping cycles of `t` by `-1` (used when the boundary directly enclosing `t` is
/// removed). `inside` = boundaries entered within `t`. Returns None when a cycle pointed at the
/// removed boundary itself.
fn unshift(t: &Ty, inside: usize) -> Option<Ty> {
    Some(match t {
        Ty::Int | Ty::Bin | Ty::Ref => t.clone(),
        Ty::Cycle(k) => {
            if *k <= inside {
                t.clone()
            } else if *k == inside + 1 {
                return None;
            } else {
                Ty::Cycle(k - 1)
            }
        }
        Ty::Tuple(n, fs) => Ty::Tuple(
            *n,
            fs.iter().map(|(l, t)| unshift(t, inside).map(|t| (*l, t))).collect::<Option<Vec<_>>>()?,
        ),
        Ty::Partial(n, fs) => Ty::Partial(
            *n,
            fs.iter().map(|(l, t)| unshift(t, inside).map(|t| (*l, t))).collect::<Option<Vec<_>>>()?,
        ),
        Ty::Union(vs) => Ty::Union(vs.iter().map(|t| unshift(t, inside + 1)).collect::<Option<Vec<_>>>()?),
        Ty::Fun(a, b) => Ty::Fun(Box::new(unshift(a, inside + 1)?), Box::new(unshift(b, inside + 1)?)),
        Ty::Proc(a, b) => Ty::Proc(Box::new(unshift(a, inside)?), Box::new(unshift(b, inside)?)),
    })
}

/// One-step simplifications of `t` (at the root and, recursively, at every sub-term).
pub fn shrink_steps(t: &Ty) -> Vec<Ty> {
    shrink_steps_at(t, true)
}

/// The simplest term of the sort of `t` (atoms: int; tuples: []; partials: (); callables:
/// int->int; processes: (int,int)); unions and cycles have none.
pub fn simplest_same_sort(t: &Ty) -> Option<Ty> {
    match t {
        Ty::Int | Ty::Bin | Ty::Ref => Some(Ty::Int),
        Ty::Tuple(..) => Some(Ty::Tuple(0, vec![])),
        Ty::Partial(..) => Some(Ty::Partial(0, vec![])),
        Ty::Fun(..) => Some(Ty::Fun(Box::new(Ty::Int), Box::new(Ty::Int))),
        Ty::Proc(..) => Some(Ty::Proc(Box::new(Ty::Int), Box::new(Ty::Int))),
        Ty::Union(_) | Ty::Cycle(_) => None,
    }
}

fn shrink_steps_at(t: &Ty, root: bool) -> Vec<Ty> {
    let mut out: Vec<Ty> = vec![];
    // 1. replace the whole term: at the root only by the simplest term of its own sort (the sort
    //    of an operand is usually the essence of the failure); below the root also by int / [].
    if !root {
        for s in simplest_of_sort() {
            if &s != t {
                out.push(s);
            }
        }
    }
    if let Some(s) = simplest_same_sort(t) {
        if &s != t {
            out.push(s);
        }
    }
    match t {
        Ty::Bin | Ty::Ref | Ty::Cycle(_) => {}
        Ty::Int => {}
        Ty::Tuple(n, fs) | Ty::Partial(n, fs) => {
            let is_p = matches!(t, Ty::Partial(..));
            let mk = |n: Name, fs: Vec<(Label, Ty)>| if is_p { Ty::Partial(n, fs) } else { Ty::Tuple(n, fs) };
            // hoist a field
            for (_, c) in fs {
                out.push(c.clone());
            }
            // drop a field
            for i in 0..fs.len() {
                let mut g = fs.clone();
                g.remove(i);
                out.push(mk(*n, g));
            }
            // drop the name
            if *n != 0 {
                out.push(mk(0, fs.clone()));
            }
            // drop / simplify a label
            for i in 0..fs.len() {
                if !is_p && fs[i].0 != 0 {
                    let mut g = fs.clone();
                    g[i].0 = 0;
                    out.push(mk(*n, g));
                }
                if fs[i].0 > 1 {
                    let mut g = fs.clone();
                    g[i].0 = 1;
                    out.push(mk(*n, g));
                }
            }
            // partial -> tuple of the same shape is NOT a simplification of the same sort; skip.
            // recurse
            for i in 0..fs.len() {
                for c in shrink_steps_at(&fs[i].1, false) {
                    let mut g = fs.clone();
                    g[i].1 = c;
                    out.push(mk(*n, g));
                }
            }
        }
        Ty::Union(vs) => {
            // hoist a variant (removing this boundary)
            for v in vs {
                if let Some(u) = unshift(v, 0) {
                    out.push(u);
                }
            }
            // canonical variant order
            {
                let mut g = vs.clone();
                g.sort_by(simpler_cmp);
                if &g != vs {
                    out.push(Ty::Union(g));
                }
            }
            // drop a variant
            if vs.len() > 2 {
                for i in 0..vs.len() {
                    let mut g = vs.clone();
                    g.remove(i);
                    out.push(Ty::Union(g));
                }
            }
            for i in 0..vs.len() {
                for c in shrink_steps_at(&vs[i], false) {
                    let mut g = vs.clone();
                    g[i] = c;
                    out.push(Ty::Union(g));
                }
            }
        }
        Ty::Fun(a, b) => {
            for c in [a, b] {
                if let Some(u) = unshift(c, 0) {
                    out.push(u);
                }
            }
            for c in shrink_steps_at(a, false) {
                out.push(Ty::Fun(Box::new(c), b.clone()));
            }
            for c in shrink_steps_at(b, false) {
                out.push(Ty::Fun(a.clone(), Box::new(c)));
            }
        }
        Ty::Proc(a, b) => {
            out.push((**a).clone());
            out.push((**b).clone());
            for c in shrink_steps_at(a, false) {
                out.push(Ty::Proc(Box::new(c), b.clone()));
            }
            for c in shrink_steps_at(b, false) {
                out.push(Ty::Proc(a.clone(), Box::new(c)));
            }
        }
    }
    // bin/ref -> int is covered by "replace by simplest" above.
    // de-duplicate preserving order, drop non-simplifications
    let mut seen = std::collections::HashSet::new();
    out.retain(|c| c != t && seen.insert(c.clone()));
    out
}

/// Reverse the variant order of every union (a structurally different, semantically equal copy).
pub fn reverse_unions(t: &Ty) -> Ty {
    match t {
        Ty::Int | Ty::Bin | Ty::Ref | Ty::Cycle(_) => t.clone(),
        Ty::Tuple(n, fs) => Ty::Tuple(*n, fs.iter().map(|(l, t)| (*l, reverse_unions(t))).collect()),
        Ty::Partial(n, fs) => Ty::Partial(*n, fs.iter().map(|(l, t)| (*l, reverse_unions(t))).collect()),
        Ty::Union(vs) => Ty::Union(vs.iter().rev().map(reverse_unions).collect()),
        Ty::Fun(a, b) => Ty::Fun(Box::new(reverse_unions(a)), Box::new(reverse_unions(b))),
        Ty::Proc(a, b) => Ty::Proc(Box::new(reverse_unions(a)), Box::new(reverse_unions(b))),
    }
}

/// Unfold once every cycle that refers to the root boundary of the closed type `t` (the result
/// denotes the same regular tree). Returns None when `t` has no such cycle.
pub fn unroll_once(t: &Ty) -> Option<Ty> {
    fn go(t: &Ty, inside: usize, root: &Ty, hit: &mut bool) -> Ty {
        match t {
            Ty::Int | Ty::Bin | Ty::Ref => t.clone(),
            Ty::Cycle(k) => {
                if *k == inside {
                    *hit = true;
                    root.clone()
                } else {
                    t.clone()
                }
            }
            Ty::Tuple(n, fs) => Ty::Tuple(*n, fs.iter().map(|(l, t)| (*l, go(t, inside, root, hit))).collect()),
            Ty::Partial(n, fs) => {
                Ty::Partial(*n, fs.iter().map(|(l, t)| (*l, go(t, inside, root, hit))).collect())
            }
            Ty::Union(vs) => Ty::Union(vs.iter().map(|t| go(t, inside + 1, root, hit)).collect()),
            Ty::Fun(a, b) => Ty::Fun(
                Box::new(go(a, inside + 1, root, hit)),
                Box::new(go(b, inside + 1, root, hit)),
            ),
            Ty::Proc(a, b) => Ty::Proc(Box::new(go(a, inside, root, hit)), Box::new(go(b, inside, root, hit))),
        }
    }
    if !matches!(t, Ty::Union(_) | Ty::Fun(..)) || !t.is_closed() {
        return None;
    }
    let mut hit = false;
    let r = go(t, 0, t, &mut hit);
    // a union variant that became a union (impossible: root-pointing cycles are guarded) is not
    // produced; the result stays in normal form.
    if hit { Some(r) } else { None }
}

/// Whole-term renamings applied to both operands at once by the shrinker.
#[derive(Clone, Copy, Debug)]
pub enum Rename {
    BinToInt,
    RefToInt,
    YToX,
    DropNames,
}

pub const RENAMES: [Rename; 4] = [Rename::BinToInt, Rename::RefToInt, Rename::YToX, Rename::DropNames];

pub fn rename(t: &Ty, r: Rename) -> Ty {
    let f = |x: &Ty| rename(x, r);
    let lab = |l: Label| if matches!(r, Rename::YToX) && l == 2 { 1 } else { l };
    let nm = |n: Name| if matches!(r, Rename::DropNames) { 0 } else { n };
    match t {
        Ty::Int | Ty::Cycle(_) => t.clone(),
        Ty::Bin => if matches!(r, Rename::BinToInt) { Ty::Int } else { Ty::Bin },
        Ty::Ref => if matches!(r, Rename::RefToInt) { Ty::Int } else { Ty::Ref },
        Ty::Tuple(n, fs) => Ty::Tuple(nm(*n), fs.iter().map(|(l, t)| (lab(*l), f(t))).collect()),
        Ty::Partial(n, fs) => Ty::Partial(nm(*n), fs.iter().map(|(l, t)| (lab(*l), f(t))).collect()),
        Ty::Union(vs) => Ty::Union(vs.iter().map(f).collect()),
        Ty::Fun(a, b) => Ty::Fun(Box::new(f(a)), Box::new(f(b))),
        Ty::Proc(a, b) => Ty::Proc(Box::new(f(a)), Box::new(f(b))),
    }
}

/// Joint simplifications of an ordered pair: descend into corresponding components of two terms
/// with the same head (the callable parameter pair is swapped: it is contravariant), or rename
/// both terms at once.
pub fn joint_steps(a: &Ty, b: &Ty) -> Vec<(Ty, Ty)> {
    let mut out: Vec<(Ty, Ty)> = vec![];
    match (a, b) {
        (Ty::Tuple(_, f1), Ty::Tuple(_, f2)) if f1.len() == f2.len() => {
            for i in 0..f1.len() {
                out.push((f1[i].1.clone(), f2[i].1.clone()));
            }
        }
        (Ty::Tuple(_, f1), Ty::Partial(_, f2))
        | (Ty::Partial(_, f1), Ty::Partial(_, f2))
        | (Ty::Partial(_, f1), Ty::Tuple(_, f2)) => {
            for (l2, t2) in f2 {
                for (l1, t1) in f1 {
                    if l1 == l2 && *l1 != 0 {
                        out.push((t1.clone(), t2.clone()));
                    }
                }
            }
        }
        (Ty::Fun(p1, r1), Ty::Fun(p2, r2)) => {
            if let (Some(x), Some(y)) = (unshift(r1, 0), unshift(r2, 0)) {
                out.push((x, y));
            }
            if let (Some(x), Some(y)) = (unshift(p2, 0), unshift(p1, 0)) {
                out.push((x, y));
            }
        }
        (Ty::Proc(s1, r1), Ty::Proc(s2, r2)) => {
            out.push(((**r1).clone(), (**r2).clone()));
            out.push(((**s1).clone(), (**s2).clone()));
        }
        _ => {}
    }
    out
}

/// The expensive joint candidates: global substitutions / renamings, then the mirrored pair.
pub fn joint_global(a: &Ty, b: &Ty) -> Vec<(Ty, Ty)> {
    let mut out: Vec<(Ty, Ty)> = vec![];
    for cand in global_steps(&[a, b]) {
        let mut it = cand.into_iter();
        let (x, y) = (it.next().unwrap(), it.next().unwrap());
        out.push((x, y));
    }
    // the mirrored pair (accepted only when it fails too and is smaller in the simplicity order)
    out.push((b.clone(), a.clone()));
    out
}

/// All distinct proper sub-terms of `t` (pre-order).
pub fn subterms(t: &Ty, out: &mut Vec<Ty>) {
    let mut push = |c: &Ty, out: &mut Vec<Ty>| {
        if !out.contains(c) {
            out.push(c.clone());
        }
        subterms(c, out);
    };
    match t {
        Ty::Int | Ty::Bin | Ty::Ref | Ty::Cycle(_) => {}
        Ty::Tuple(_, fs) | Ty::Partial(_, fs) => {
            for (_, c) in fs {
                push(c, out);
            }
        }
        Ty::Union(vs) => {
            for c in vs {
                push(c, out);
            }
        }
        Ty::Fun(a, b) | Ty::Proc(a, b) => {
            push(a, out);
            push(b, out);
        }
    }
}

/// Replace every occurrence of the sub-term `from` (below the root) by `to`.
pub fn substitute(t: &Ty, from: &Ty, to: &Ty) -> Ty {
    let f = |c: &Ty| if c == from { to.clone() } else { substitute(c, from, to) };
    match t {
        Ty::Int | Ty::Bin | Ty::Ref | Ty::Cycle(_) => t.clone(),
        Ty::Tuple(n, fs) => Ty::Tuple(*n, fs.iter().map(|(l, c)| (*l, f(c))).collect()),
        Ty::Partial(n, fs) => Ty::Partial(*n, fs.iter().map(|(l, c)| (*l, f(c))).collect()),
        Ty::Union(vs) => Ty::Union(vs.iter().map(f).collect()),
        Ty::Fun(a, b) => Ty::Fun(Box::new(f(a)), Box::new(f(b))),
        Ty::Proc(a, b) => Ty::Proc(Box::new(f(a)), Box::new(f(b))),
    }
}

pub fn sort_unions(t: &Ty) -> Ty {
    match t {
        Ty::Int | Ty::Bin | Ty::Ref | Ty::Cycle(_) => t.clone(),
        Ty::Tuple(n, fs) => Ty::Tuple(*n, fs.iter().map(|(l, t)| (*l, sort_unions(t))).collect()),
        Ty::Partial(n, fs) => Ty::Partial(*n, fs.iter().map(|(l, t)| (*l, sort_unions(t))).collect()),
        Ty::Union(vs) => {
            let mut g: Vec<Ty> = vs.iter().map(sort_unions).collect();
            g.sort_by(simpler_cmp);
            Ty::Union(g)
        }
        Ty::Fun(a, b) => Ty::Fun(Box::new(sort_unions(a)), Box::new(sort_unions(b))),
        Ty::Proc(a, b) => Ty::Proc(Box::new(sort_unions(a)), Box::new(sort_unions(b))),
    }
}

/// Simplifications applied to several terms at once: every occurrence of one sub-term, in all
/// terms, replaced by int / [] / the simplest term of its sort; renamings; union sorting.
pub fn global_steps(ts: &[&Ty]) -> Vec<Vec<Ty>> {
    let mut out: Vec<Vec<Ty>> = vec![];
    let mut subs: Vec<Ty> = vec![];
    for t in ts {
        subterms(t, &mut subs);
    }
    // larger sub-terms first: they remove the most
    subs.sort_by(|a, b| b.nodes().cmp(&a.nodes()).then(a.cmp(b)));
    for sub in &subs {
        let mut targets = vec![Ty::Int, Ty::Tuple(0, vec![])];
        if let Some(x) = simplest_same_sort(sub) {
            if !targets.contains(&x) {
                targets.push(x);
            }
        }
        for to in targets {
            if &to == sub {
                continue;
            }
            let cand: Vec<Ty> = ts.iter().map(|t| substitute(t, sub, &to)).collect();
            if cand.iter().zip(ts.iter()).any(|(c, t)| c != *t) {
                out.push(cand);
            }
        }
    }
    // drop the same field from every occurrence of a tuple / partial sub-term
    for sub in &subs {
        if let Ty::Tuple(n, fs) | Ty::Partial(n, fs) = sub {
            for i in 0..fs.len() {
                let mut g = fs.clone();
                g.remove(i);
                let to = if matches!(sub, Ty::Tuple(..)) { Ty::Tuple(*n, g) } else { Ty::Partial(*n, g) };
                let cand: Vec<Ty> = ts.iter().map(|t| substitute(t, sub, &to)).collect();
                if cand.iter().zip(ts.iter()).any(|(c, t)| c != *t) {
                    out.push(cand);
                }
            }
        }
    }
    // drop field i from every tuple of arity n, everywhere
    for n in 1..=2usize {
        for i in 0..n {
            let cand: Vec<Ty> = ts.iter().map(|t| drop_field_everywhere(t, n, i)).collect();
            if cand.iter().zip(ts.iter()).any(|(c, t)| c != *t) {
                out.push(cand);
            }
        }
    }
    for r in RENAMES {
        let cand: Vec<Ty> = ts.iter().map(|t| rename(t, r)).collect();
        if cand.iter().zip(ts.iter()).any(|(c, t)| c != *t) {
            out.push(cand);
        }
    }
    let cand: Vec<Ty> = ts.iter().map(|t| sort_unions(t)).collect();
    if cand.iter().zip(ts.iter()).any(|(c, t)| c != *t) {
        out.push(cand);
    }
    out
}

/// Descend into corresponding components of three terms with the same head.
pub fn joint_hoists3(a: &Ty, b: &Ty, c: &Ty) -> Vec<(Ty, Ty, Ty)> {
    let mut out = vec![];
    match (a, b, c) {
        (Ty::Tuple(_, f1), Ty::Tuple(_, f2), Ty::Tuple(_, f3)) if f1.len() == f2.len() && f2.len() == f3.len() => {
            for i in 0..f1.len() {
                out.push((f1[i].1.clone(), f2[i].1.clone(), f3[i].1.clone()));
            }
        }
        (Ty::Fun(p1, r1), Ty::Fun(p2, r2), Ty::Fun(p3, r3)) => {
            if let (Some(x), Some(y), Some(z)) = (unshift(r1, 0), unshift(r2, 0), unshift(r3, 0)) {
                out.push((x, y, z));
            }
            if let (Some(x), Some(y), Some(z)) = (unshift(p3, 0), unshift(p2, 0), unshift(p1, 0)) {
                out.push((x, y, z));
            }
        }
        (Ty::Proc(s1, r1), Ty::Proc(s2, r2), Ty::Proc(s3, r3)) => {
            out.push(((**r1).clone(), (**r2).clone(), (**r3).clone()));
            out.push(((**s1).clone(), (**s2).clone(), (**s3).clone()));
        }
        _ => {}
    }
    out
}

/// Simplicity order used by the shrinker's measure: int < [] < bin < ref < other tuples <
/// partials < cycles < unions < callables < processes, then component-wise.
pub fn simpler_cmp(a: &Ty, b: &Ty) -> std::cmp::Ordering {
    use std::cmp::Ordering::*;
    fn rank(t: &Ty) -> u8 {
        match t {
            Ty::Int => 0,
            Ty::Tuple(0, fs) if fs.is_empty() => 1,
            Ty::Bin => 2,
            Ty::Ref => 3,
            Ty::Tuple(..) => 4,
            Ty::Partial(..) => 5,
            Ty::Cycle(_) => 6,
            Ty::Union(_) => 7,
            Ty::Fun(..) => 8,
            Ty::Proc(..) => 9,
        }
    }
    let (ra, rb) = (rank(a), rank(b));
    if ra != rb {
        return ra.cmp(&rb);
    }
    match (a, b) {
        (Ty::Tuple(n1, f1), Ty::Tuple(n2, f2)) | (Ty::Partial(n1, f1), Ty::Partial(n2, f2)) => {
            n1.cmp(n2).then(f1.len().cmp(&f2.len())).then_with(|| {
                for ((l1, t1), (l2, t2)) in f1.iter().zip(f2.iter()) {
                    let c = l1.cmp(l2).then_with(|| simpler_cmp(t1, t2));
                    if c != Equal {
                        return c;
                    }
                }
                Equal
            })
        }
        (Ty::Cycle(x), Ty::Cycle(y)) => x.cmp(y),
        (Ty::Union(v1), Ty::Union(v2)) => v1.len().cmp(&v2.len()).then_with(|| {
            for (t1, t2) in v1.iter().zip(v2.iter()) {
                let c = simpler_cmp(t1, t2);
                if c != Equal {
                    return c;
                }
            }
            Equal
        }),
        (Ty::Fun(a1, b1), Ty::Fun(a2, b2)) | (Ty::Proc(a1, b1), Ty::Proc(a2, b2)) => {
            simpler_cmp(a1, a2).then_with(|| simpler_cmp(b1, b2))
        }
        _ => Equal,
    }
}

/// Remove field `i` from every tuple (not partial) of arity `n` occurring in `t`.
pub fn drop_field_everywhere(t: &Ty, n: usize, i: usize) -> Ty {
    let f = |c: &Ty| drop_field_everywhere(c, n, i);
    match t {
        Ty::Int | Ty::Bin | Ty::Ref | Ty::Cycle(_) => t.clone(),
        Ty::Tuple(name, fs) => {
            let mut g: Vec<(Label, Ty)> = fs.iter().map(|(l, c)| (*l, f(c))).collect();
            if g.len() == n {
                g.remove(i);
            }
            Ty::Tuple(*name, g)
        }
        Ty::Partial(name, fs) => Ty::Partial(*name, fs.iter().map(|(l, c)| (*l, f(c))).collect()),
        Ty::Union(vs) => Ty::Union(vs.iter().map(f).collect()),
        Ty::Fun(a, b) => Ty::Fun(Box::new(f(a)), Box::new(f(b))),
        Ty::Proc(a, b) => Ty::Proc(Box::new(f(a)), Box::new(f(b))),
    }
}
