//! C17 — "Formatting is a fixpoint and preserves the program and its comments".
//!
//! Technique: bounded-exhaustive enumeration (no sampling). Every enumerated source the real parser
//! accepts is judged by the oracle of `oracle.rs` (output parses / second format changes nothing /
//! canonical ASTs equal / input comments survive in order / on a stride identical bytecode). Classes:
//!
//! * (i)   corpus — `std/*.qv` (whole files and per top-level item), the plain string literals passed to
//!         `evaluate(`/`then_evaluate(` in `quiver-tests/tests/*.rs` (Rust-literal scanner in
//!         `corpus.rs`; `format!` templates and other non-literal arguments are skipped and counted),
//!         the fenced quiver blocks of `docs/spec.md` (whole and per paragraph), `examples/**`;
//! * (ii)  grammar — all programs of a small grammar up to n nodes (`grammar.rs`), rendered by an
//!         independent renderer in three spacing styles (inline / vertical / tight); FULL vocabulary up
//!         to n = 2 (quick) / 3 (thorough), REDUCED vocabulary up to n = 3 / 4; plus all type
//!         expressions up to 3 / 4 nodes in nine contexts;
//! * (iii) width — identifiers and literals of base programs (short corpus sources, grammar programs,
//!         core x context products) stretched to lengths {1, 9, 17, 33} (all at once; each alone), and
//!         one token at a time swept over every length up to 110 so that every group crosses the
//!         formatter's 40 / 50 / 100 column thresholds exactly, from both sides;
//! * (iv)  trivia — a trailing comment, an own-line comment or a blank line inserted at every token
//!         start/end (independent lexer, never inside string text): all single insertions, and
//!         (thorough) all pairs inside one top-level statement whose members each pass alone;
//! * (v)   strings — every sequence of up to 2 / 3 pieces (escapes, quotes, braces, `//`, holes, nested
//!         strings) as a single-line and as a multi-line literal (four margin/indent layouts) in term,
//!         field, branch, hole and pattern positions;
//! * (vi)  a fixed probe set for two constructs that are excluded from the bulk generators because
//!         every program containing them fails for one already-recorded reason.
//!
//! Every failing (input, clause) pair is shrunk (`shrink.rs`) to a minimal core; `<clause>: <core>` is
//! the violation's signature. On the unchanged tree the check finds 17 root causes (see the local
//! `known_findings.json`); a signature that is not listed there makes the run fail.

mod corpus;
mod grammar;
mod lexer;
mod oracle;
mod shrink;
mod strings;
mod trivia;
mod width;

use crate::infra::{Budget, Report, Tier, Violation};
use oracle::{Kind, Outcome};
use rayon::prelude::*;
use serde_json::{Value as J, json};
use std::collections::{BTreeMap, BTreeSet, HashMap};
use std::sync::Mutex;
use std::sync::atomic::{AtomicBool, AtomicUsize, Ordering};

fn fnv64(s: &str) -> u64 {
    let mut h: u64 = 0xcbf29ce484222325;
    for b in s.bytes() {
        h ^= b as u64;
        h = h.wrapping_mul(0x100000001b3);
    }
    h
}

/// One enumerated input.
pub struct Case {
    pub src: String,
}

#[derive(Default, Clone)]
pub struct ClassStats {
    pub generated: usize,
    pub parsed: usize,
    pub rejected: usize,
    pub passed: usize,
    pub failed_inputs: usize,
    pub changed_by_formatter: usize,
    pub multiline_output: usize,
    pub with_comments: usize,
    pub extra_comments_abstained: usize,
    pub style_only_ast_difference: usize,
    pub lexer_unsure_abstained: usize,
    pub bytecode_compared: usize,
    pub bytecode_input_uncompilable: usize,
    pub selfcheck_run: usize,
    pub selfcheck_failed: usize,
    pub nontrivial_hashes: Vec<u64>,
    pub failures: Vec<(String, Kind, String)>,
    pub samples: Vec<String>,
    pub rejected_samples: Vec<String>,
}

impl ClassStats {
    fn merge(&mut self, o: ClassStats) {
        self.generated += o.generated;
        self.parsed += o.parsed;
        self.rejected += o.rejected;
        self.passed += o.passed;
        self.failed_inputs += o.failed_inputs;
        self.changed_by_formatter += o.changed_by_formatter;
        self.multiline_output += o.multiline_output;
        self.with_comments += o.with_comments;
        self.extra_comments_abstained += o.extra_comments_abstained;
        self.style_only_ast_difference += o.style_only_ast_difference;
        self.lexer_unsure_abstained += o.lexer_unsure_abstained;
        self.bytecode_compared += o.bytecode_compared;
        self.bytecode_input_uncompilable += o.bytecode_input_uncompilable;
        self.selfcheck_run += o.selfcheck_run;
        self.selfcheck_failed += o.selfcheck_failed;
        self.nontrivial_hashes.extend(o.nontrivial_hashes);
        self.failures.extend(o.failures);
        for s in o.samples {
            if self.samples.len() < 4 {
                self.samples.push(s);
            }
        }
        for s in o.rejected_samples {
            if self.rejected_samples.len() < 40 {
                self.rejected_samples.push(s);
            }
        }
    }
    fn to_json(&self) -> J {
        json!({
            "generated": self.generated,
            "accepted_by_parser": self.parsed,
            "rejected_by_parser": self.rejected,
            "passed": self.passed,
            "failing_inputs": self.failed_inputs,
            "output_differs_from_input": self.changed_by_formatter,
            "multiline_output": self.multiline_output,
            "inputs_with_comments": self.with_comments,
            "abstained_output_has_extra_comments": self.extra_comments_abstained,
            "abstained_lexer_unsure": self.lexer_unsure_abstained,
            "ast_differs_only_in_string_delimiter_style_accepted": self.style_only_ast_difference,
            "bytecode_compared": self.bytecode_compared,
            "bytecode_skipped_input_does_not_compile": self.bytecode_input_uncompilable,
            "lexer_selfcheck_run": self.selfcheck_run,
            "lexer_selfcheck_failed": self.selfcheck_failed,
            "rejected_samples": self.rejected_samples.iter().take(if std::env::var_os("C17_TIMING").is_some() { 40 } else { 3 }).map(|s| shrink::visible(s)).collect::<Vec<_>>(),
        })
    }
}

fn timing(label: &str, budget: &Budget) {
    if std::env::var_os("C17_TIMING").is_some() {
        eprintln!("[c17 timing] {:>8.2}s  {}", budget.elapsed(), label);
    }
}

pub type Builtins = quiver_core::builtins::BuiltinRegistry<crate::qcompile::E>;

// ---- stall watchdog ------------------------------------------------------------------------------
// Every worker publishes the input it is working on; a watchdog thread aborts the run (machinery
// failure, exit 2, naming the input) if one input has been in flight for more than 240 s. The inputs
// are bounded in size and nesting, so this is a safety net, not an expected path.
static IN_FLIGHT: [Mutex<Option<(std::time::Instant, String)>>; 64] = [const { Mutex::new(None) }; 64];

/// Clears the worker's in-flight slot when dropped (also on unwinding).
pub(crate) struct InFlight;

impl InFlight {
    pub(crate) fn new(src: &str) -> InFlight {
        publish(Some(src));
        InFlight
    }
}

impl Drop for InFlight {
    fn drop(&mut self) {
        publish(None);
    }
}

pub(crate) fn publish(src: Option<&str>) {
    let i = rayon::current_thread_index().map(|i| i + 1).unwrap_or(0) % 64;
    if let Ok(mut g) = IN_FLIGHT[i].lock() {
        *g = src.map(|s| (std::time::Instant::now(), s.to_string()));
    }
}

fn start_watchdog() {
    static STARTED: AtomicBool = AtomicBool::new(false);
    if STARTED.swap(true, Ordering::SeqCst) {
        return;
    }
    std::thread::spawn(|| {
        loop {
            std::thread::sleep(std::time::Duration::from_secs(5));
            for slot in IN_FLIGHT.iter() {
                if let Ok(g) = slot.lock() {
                    if let Some((t, src)) = g.as_ref() {
                        if t.elapsed().as_secs() > 240 {
                            eprintln!("machinery: C17 stalled for more than 240 s in repository code on the input `{}`", shrink::visible(src));
                            std::process::exit(2);
                        }
                    }
                }
            }
        }
    });
}

/// Judge one source. `bytecode` requests the compile comparison; `selfcheck` the lexer self-check.
pub fn judge(st: &mut ClassStats, src: &str, builtins: Option<&Builtins>, selfcheck: bool) -> bool {
    st.generated += 1;
    let out = {
        let _guard = InFlight::new(src);
        oracle::check(src, builtins)
    };
    match out {
        Outcome::Rejected => {
            st.rejected += 1;
            if st.rejected_samples.len() < 3 {
                st.rejected_samples.push(src.to_string());
            }
            false
        }
        Outcome::Pass(info) => {
            st.parsed += 1;
            st.passed += 1;
            note_info(st, src, &info, selfcheck);
            true
        }
        Outcome::Fail(fs) => {
            st.parsed += 1;
            st.failed_inputs += 1;
            st.nontrivial_hashes.push(fnv64(src));
            for f in fs {
                st.failures.push((src.to_string(), f.kind, f.detail));
            }
            false
        }
    }
}

fn note_info(st: &mut ClassStats, src: &str, info: &oracle::PassInfo, selfcheck: bool) {
    if info.changed {
        st.changed_by_formatter += 1;
    }
    if info.multiline {
        st.multiline_output += 1;
    }
    if info.comments > 0 {
        st.with_comments += 1;
    }
    if info.extra_comments {
        st.extra_comments_abstained += 1;
    }
    if info.style_only_diff {
        st.style_only_ast_difference += 1;
    }
    if info.lexer_unsure {
        st.lexer_unsure_abstained += 1;
    }
    match info.bytecode_compared {
        Some(true) => st.bytecode_compared += 1,
        Some(false) => st.bytecode_input_uncompilable += 1,
        None => {}
    }
    if info.changed || info.multiline || info.comments > 0 {
        st.nontrivial_hashes.push(fnv64(src));
        if st.samples.len() < 4 && src.len() <= 160 {
            st.samples.push(src.to_string());
        }
    }
    if selfcheck {
        st.selfcheck_run += 1;
        if !oracle::lexer_selfcheck(src) {
            st.selfcheck_failed += 1;
        }
    }
}

/// Run `sources` in parallel slices, stopping between slices when the budget is used up.
/// Returns the merged stats and whether every slice ran.
pub fn run_slices<F>(n_items: usize, slice: usize, budget: &Budget, deadline_s: f64, work: F) -> (ClassStats, bool)
where
    F: Fn(std::ops::Range<usize>, &mut ClassStats) + Sync,
{
    let slices: Vec<std::ops::Range<usize>> = (0..n_items).step_by(slice.max(1)).map(|s| s..(s + slice).min(n_items)).collect();
    let rot = if slices.is_empty() { 0 } else { (crate::infra::seed().unsigned_abs() as usize) % slices.len() };
    let order: Vec<usize> = (0..slices.len()).map(|i| (i + rot) % slices.len()).collect();
    let stopped = AtomicBool::new(false);
    let parts: Vec<(usize, ClassStats)> = order
        .par_iter()
        .filter_map(|&i| {
            if budget.elapsed() > deadline_s {
                stopped.store(true, Ordering::Relaxed);
                return None;
            }
            let mut st = ClassStats::default();
            work(slices[i].clone(), &mut st);
            Some((i, st))
        })
        .collect();
    let mut parts = parts;
    parts.sort_by_key(|p| p.0);
    let mut total = ClassStats::default();
    for (_, p) in parts {
        total.merge(p);
    }
    (total, !stopped.load(Ordering::Relaxed))
}

struct Params {
    grammar_full_n: usize,
    grammar_reduced_n: usize,
    type_nodes: usize,
    trivia_max_len: usize,
    trivia_grammar_full_n: usize,
    trivia_pairs_max_tokens: usize,
    width_corpus_max_len: usize,
    width_grammar_reduced_n: usize,
    sweep_max: usize,
    sweep_corpus_max_len: usize,
    string_pieces: usize,
    context_core_terms: usize,
    bytecode_stride: usize,
    budget_s: f64,
}

/// Rendered grammar programs: (source, style index). Deterministic order, simplest first.
fn grammar_sources(full_n: usize, reduced_n: usize, styles: &[grammar::Style]) -> (Vec<String>, J) {
    let mut out: Vec<String> = Vec::new();
    let mut seen: std::collections::HashSet<u64> = std::collections::HashSet::new();
    let mut counts = serde_json::Map::new();
    let mut g = grammar::G::new(false, full_n.max(1));
    for k in 1..=full_n {
        let progs = g.programs(k);
        counts.insert(format!("full_vocabulary_n{}", k), json!(progs.len()));
        for p in &progs {
            for st in styles {
                let s = grammar::render_program(p, *st);
                if seen.insert(fnv64(&s)) {
                    out.push(s);
                }
            }
        }
    }
    let mut g = grammar::G::new(true, reduced_n.max(1));
    for k in 1..=reduced_n {
        let progs = g.programs(k);
        counts.insert(format!("reduced_vocabulary_n{}", k), json!(progs.len()));
        for p in &progs {
            for st in styles {
                let s = grammar::render_program(p, *st);
                if seen.insert(fnv64(&s)) {
                    out.push(s);
                }
            }
        }
    }
    counts.insert("distinct_rendered_sources".into(), json!(out.len()));
    (out, J::Object(counts))
}

pub fn run(tier: Tier) -> Result<Report, String> {
    // panics in repository code are caught and judged; only a panic in this module's own code is
    // worth a message
    std::panic::set_hook(Box::new(|info| {
        if let Some(loc) = info.location() {
            if loc.file().contains("c17") {
                eprintln!("machinery: C17 internal panic at {}:{}: {}", loc.file(), loc.line(), info);
            }
        }
    }));
    start_watchdog();
    let p = match tier {
        Tier::Quick => Params {
            grammar_full_n: 2,
            grammar_reduced_n: 3,
            type_nodes: 3,
            trivia_max_len: 160,
            trivia_grammar_full_n: 2,
            trivia_pairs_max_tokens: 0,
            width_corpus_max_len: 160,
            width_grammar_reduced_n: 2,
            sweep_max: 110,
            sweep_corpus_max_len: 0,
            string_pieces: 2,
            context_core_terms: 2,
            bytecode_stride: 16,
            budget_s: 18.0,
        },
        Tier::Thorough => Params {
            grammar_full_n: 3,
            grammar_reduced_n: 4,
            type_nodes: 4,
            trivia_max_len: 4000,
            trivia_grammar_full_n: 2,
            trivia_pairs_max_tokens: 40,
            width_corpus_max_len: 400,
            width_grammar_reduced_n: 3,
            sweep_max: 110,
            sweep_corpus_max_len: 120,
            string_pieces: 3,
            context_core_terms: 3,
            bytecode_stride: 4,
            budget_s: 540.0,
        },
    };
    let mut p = p;
    // development aid only (not used by the delivered interface): lengthen the enumeration deadline on
    // an overloaded machine
    if let Some(x) = std::env::var("C17_BUDGET_S").ok().and_then(|s| s.parse::<f64>().ok()) {
        p.budget_s = x;
    }
    let budget = Budget::new(p.budget_s);
    let repo = crate::infra::repo_root();
    let corpus = corpus::load(&repo)?;
    let mut classes: BTreeMap<&'static str, ClassStats> = BTreeMap::new();
    let mut caps: Vec<String> = Vec::new();
    let mut universe = serde_json::Map::new();
    let stride = p.bytecode_stride;

    // ---- (i) corpus ------------------------------------------------------------------------------
    {
        let srcs = &corpus.sources;
        let (st, done) = run_slices(srcs.len(), 8, &budget, p.budget_s * 0.2, |r, st| {
            let b = crate::qcompile::core_builtins();
            for i in r {
                judge(st, &srcs[i].0, Some(&b), true);
            }
        });
        if !done {
            caps.push("corpus: time cap".into());
        }
        classes.insert("i_corpus", st);
        universe.insert("corpus".into(), json!(format!("{:?}", corpus.stats)));
    }

    timing("before (v) strings", &budget);
    // ---- (v) strings -----------------------------------------------------------------------------
    {
        let mut cases = strings::single_cases(p.string_pieces);
        let n_single = cases.len();
        cases.extend(strings::multi_cases(p.string_pieces));
        let (st, done) = run_slices(cases.len(), 512, &budget, p.budget_s * 0.3, |r, st| {
            let b = crate::qcompile::core_builtins();
            for i in r {
                judge(st, &cases[i], if i % stride == 0 { Some(&b) } else { None }, i % 8 == 0);
            }
        });
        if !done {
            caps.push("strings: time cap".into());
        }
        universe.insert(
            "strings".into(),
            json!({"max_pieces": p.string_pieces, "single_line_pieces": strings::SINGLE_PIECES, "multi_line_pieces": strings::MULTI_PIECES,
                   "single_line_cases": n_single, "multi_line_cases": cases.len() - n_single,
                   "multi_line_layouts": "closing-delimiter margin {0,4} x content extra indent {0,2}", "contexts_single": 7, "contexts_multi": 4}),
        );
        classes.insert("v_strings", st);
    }

    timing("before (ii) grammar programs", &budget);
    // ---- (ii) grammar programs -------------------------------------------------------------------
    {
        let mut total = ClassStats::default();
        let mut counts = serde_json::Map::new();
        let mut all_done = true;
        for (reduced, max_n) in [(false, p.grammar_full_n), (true, p.grammar_reduced_n)] {
            let mut g = grammar::G::new(reduced, max_n.max(1));
            for k in 1..=max_n {
                // the reduced vocabulary is a subset of the full one: skip sizes already covered
                if reduced && k <= p.grammar_full_n {
                    continue;
                }
                // stream the programs of this size in batches (only smaller sizes are materialised)
                let mut batch: Vec<Vec<grammar::Stmt>> = Vec::new();
                let mut n_progs = 0usize;
                let mut st = ClassStats::default();
                let mut done = true;
                let mut flush = |batch: &mut Vec<Vec<grammar::Stmt>>, st: &mut ClassStats, done: &mut bool, base: usize| {
                    if batch.is_empty() || !*done {
                        batch.clear();
                        return;
                    }
                    let progs: &Vec<Vec<grammar::Stmt>> = batch;
                    let (s2, d2) = run_slices(progs.len(), 1024, &budget, p.budget_s * 0.5, |r, st| {
                        let b = crate::qcompile::core_builtins();
                        for i in r {
                            for (si, style) in grammar::STYLES.iter().enumerate() {
                                let src = grammar::render_program(&progs[i], *style);
                                let n = (base + i) * 3 + si;
                                judge(st, &src, if n % stride == 0 { Some(&b) } else { None }, n % 64 == 0);
                            }
                        }
                    });
                    st.merge(s2);
                    if !d2 {
                        *done = false;
                    }
                    batch.clear();
                };
                g.gen_programs(k, &mut |prog| {
                    n_progs += 1;
                    batch.push(prog);
                    if batch.len() >= 100_000 {
                        let base = n_progs - batch.len();
                        flush(&mut batch, &mut st, &mut done, base);
                    }
                });
                let base = n_progs - batch.len();
                flush(&mut batch, &mut st, &mut done, base);
                counts.insert(format!("{}_vocabulary_n{}", if reduced { "reduced" } else { "full" }, k), json!(n_progs));
                total.merge(st);
                if !done {
                    all_done = false;
                    caps.push(format!(
                        "grammar: time cap while enumerating {} vocabulary n={} (all smaller sizes were completed)",
                        if reduced { "reduced" } else { "full" },
                        k
                    ));
                    break;
                }
            }
        }
        let _ = all_done;
        universe.insert(
            "grammar".into(),
            json!({"full_vocabulary_max_nodes": p.grammar_full_n, "reduced_vocabulary_max_nodes": p.grammar_reduced_n, "styles": ["inline", "vertical", "tight"],
                   "program_counts": J::Object(counts), "full_leaves": grammar::FULL_LEAVES, "reduced_leaves": grammar::REDUCED_LEAVES,
                   "full_pattern_leaves": grammar::FULL_PAT_LEAVES, "aliases": grammar::ALIASES.len()}),
        );
        classes.insert("ii_grammar", total);
    }

    timing("before (ii-b) type expressions", &budget);
    // ---- (ii-b) type expressions -----------------------------------------------------------------
    {
        let mut memo = vec![None; p.type_nodes + 2];
        let mut cases: Vec<String> = Vec::new();
        let mut n_types = 0usize;
        for k in 1..=p.type_nodes {
            let ts = grammar::types(k, &mut memo);
            n_types += ts.len();
            for t in ts.iter() {
                cases.extend(grammar::type_contexts(t));
            }
        }
        let (st, done) = run_slices(cases.len(), 2048, &budget, p.budget_s * 0.55, |r, st| {
            for i in r {
                judge(st, &cases[i], None, false);
            }
        });
        if !done {
            caps.push("types: time cap".into());
        }
        universe.insert("types".into(), json!({"max_nodes": p.type_nodes, "type_expressions": n_types, "contexts": 9, "atoms": grammar::TY_ATOMS}));
        classes.insert("ii_types", st);
    }

    timing("before (vi) fixed probes", &budget);
    // ---- (vi) fixed probes for constructs excluded from the bulk generators ------------------------
    {
        let mut st = ClassStats::default();
        let b = crate::qcompile::core_builtins();
        for src in grammar::PROBES {
            judge(&mut st, src, Some(&b), true);
        }
        universe.insert("probes".into(), json!({"sources": grammar::PROBES, "excluded_constructs": grammar::EXCLUDED_CONSTRUCTS}));
        classes.insert("vi_probes", st);
    }

    timing("before (iii) width", &budget);
    // ---- (iii) width -----------------------------------------------------------------------------
    {
        let mut bases: Vec<String> = corpus.sources.iter().map(|s| s.0.clone()).filter(|s| s.len() <= p.width_corpus_max_len).collect();
        let n_corpus_bases = bases.len();
        let (g_bases, _) = grammar_sources(p.grammar_full_n.min(2), p.width_grammar_reduced_n, &[grammar::Style::Inline]);
        bases.extend(g_bases);
        let ctx_bases = grammar::context_products(p.context_core_terms);
        let n_ctx_bases = ctx_bases.len();
        bases.extend(ctx_bases);
        let (mut st, done) = run_slices(bases.len(), 64, &budget, p.budget_s * 0.65, |r, st| {
            for i in r {
                for v in width::variants(&bases[i]) {
                    judge(st, &v, None, false);
                }
            }
        });
        if !done {
            caps.push("width {1,9,17,33}: time cap".into());
        }
        // sweep: one token over every length
        let mut sweep_bases: Vec<String> = corpus.sources.iter().map(|s| s.0.clone()).filter(|s| s.len() <= p.sweep_corpus_max_len).collect();
        let (g2, _) = grammar_sources(if p.sweep_corpus_max_len > 0 { 2 } else { 0 }, 2, &[grammar::Style::Inline]);
        sweep_bases.extend(g2);
        let sweep_max = p.sweep_max;
        let (st2, done2) = run_slices(sweep_bases.len(), 16, &budget, p.budget_s * 0.75, |r, st| {
            for i in r {
                for v in width::sweep(&sweep_bases[i], sweep_max) {
                    judge(st, &v, None, false);
                }
            }
        });
        if !done2 {
            caps.push("width sweep: time cap".into());
        }
        universe.insert(
            "width".into(),
            json!({"lengths": width::LENGTHS, "bases_corpus": n_corpus_bases, "bases_core_x_context": n_ctx_bases, "core_terms": grammar::CORE_TERMS, "contexts": grammar::CONTEXTS, "bases_total": bases.len(), "variants": "all stretchable tokens at once to each length; each token alone to 9/17/33",
                   "sweep_bases": sweep_bases.len(), "sweep": format!("each stretchable token alone to every length up to {}", sweep_max), "sweep_cases": st2.generated}),
        );
        st.merge(st2);
        classes.insert("iii_width", st);
    }

    timing("before (iv) trivia", &budget);
    // ---- (iv) trivia -----------------------------------------------------------------------------
    {
        let mut bases: Vec<String> = corpus.sources.iter().map(|s| s.0.clone()).filter(|s| s.len() <= p.trivia_max_len).collect();
        let n_corpus_bases = bases.len();
        let (g_bases, _) = grammar_sources(p.trivia_grammar_full_n, 0, &[grammar::Style::Inline, grammar::Style::Vertical]);
        bases.extend(g_bases);
        bases.extend(grammar::context_products(2));
        bases.sort_by(|a, b| a.len().cmp(&b.len()).then(a.cmp(b)));
        bases.dedup();
        let pair_tokens = p.trivia_pairs_max_tokens;
        let pairs_skipped = AtomicUsize::new(0);
        let pair_cases = AtomicUsize::new(0);
        let bases_with_pairs = AtomicUsize::new(0);
        let (st, done) = run_slices(bases.len(), 4, &budget, p.budget_s * 0.9, |r, st| {
            for i in r {
                let base = &bases[i];
                let singles = trivia::singles(base);
                let mut ok: Vec<bool> = Vec::with_capacity(singles.len());
                for v in &singles {
                    ok.push(judge(st, &v.text, None, false));
                }
                if pair_tokens > 0 && trivia::token_count(base) <= pair_tokens {
                    bases_with_pairs.fetch_add(1, Ordering::Relaxed);
                    let (n, skipped) = trivia::pairs(base, &singles, &ok, |text| {
                        judge(st, text, None, false);
                    });
                    pair_cases.fetch_add(n, Ordering::Relaxed);
                    pairs_skipped.fetch_add(skipped, Ordering::Relaxed);
                }
            }
        });
        if !done {
            caps.push("trivia: time cap (slices of bases ordered shortest first; not all were reached)".into());
        }
        universe.insert(
            "trivia".into(),
            json!({
                "bases": bases.len(),
                "bases_corpus": n_corpus_bases,
                "corpus_base_max_len": p.trivia_max_len,
                "grammar_bases": format!("full vocabulary n<={} in inline and vertical style; core x context products with <=2 core terms", p.trivia_grammar_full_n),
                "forms": trivia::FORMS,
                "pair_bases": bases_with_pairs.load(Ordering::Relaxed),
                "pair_cases": pair_cases.load(Ordering::Relaxed),
                "pairs_skipped_member_fails_or_rejected_alone": pairs_skipped.load(Ordering::Relaxed),
                "pair_base_max_tokens": pair_tokens,
            }),
        );
        classes.insert("iv_trivia", st);
    }

    timing("enumeration done", &budget);
    let hard_limit_s = if std::env::var_os("C17_BUDGET_S").is_some() {
        p.budget_s * 4.0
    } else {
        match tier {
            Tier::Quick => 26.0,
            Tier::Thorough => 680.0,
        }
    };
    finish_report(tier, classes, caps, universe, &budget, hard_limit_s)
}

fn finish_report(
    tier: Tier,
    classes: BTreeMap<&'static str, ClassStats>,
    caps: Vec<String>,
    universe: serde_json::Map<String, J>,
    budget: &Budget,
    hard_limit_s: f64,
) -> Result<Report, String> {
    // ---- collect failures, shrink, group ---------------------------------------------------------
    let mut failing: BTreeMap<(String, Kind), (String, &'static str)> = BTreeMap::new();
    for (name, st) in &classes {
        for (src, kind, detail) in &st.failures {
            failing.entry((src.clone(), *kind)).or_insert((detail.clone(), name));
        }
    }
    let mut items: Vec<(&(String, Kind), &(String, &'static str))> = failing.iter().collect();
    // simplest first, so that under a time cap the first (smallest) witnesses of every root cause are
    // the ones that get classified
    items.sort_by(|a, b| a.0.0.len().cmp(&b.0.0.len()).then(a.0.cmp(b.0)));
    let shrink_checks = AtomicUsize::new(0);
    let mut shrunk: Vec<(String, Kind, String, String, &'static str)> = Vec::new();
    let mut not_classified = 0usize;
    for chunk in items.chunks(512) {
        if budget.elapsed() > hard_limit_s {
            not_classified += chunk.len();
            continue;
        }
        let part: Vec<(String, Kind, String, String, &'static str)> = chunk
            .par_iter()
            .map(|((src, kind), (detail, class))| {
                let r = std::panic::catch_unwind(std::panic::AssertUnwindSafe(|| {
                    let b = if *kind == Kind::BytecodeChanged { Some(crate::qcompile::core_builtins()) } else { None };
                    let mut sh = shrink::Shrinker::new(*kind, b.as_ref());
                    let core = sh.shrink(src);
                    shrink_checks.fetch_add(sh.checks, Ordering::Relaxed);
                    core
                }));
                match r {
                    Ok(core) => Ok((core, *kind, src.clone(), detail.clone(), *class)),
                    Err(_) => Err(format!("the shrinker panicked on `{}` ({})", shrink::visible(src), kind.name())),
                }
            })
            .collect::<Result<Vec<_>, String>>()?;
        shrunk.extend(part);
    }
    let mut caps = caps;
    if not_classified > 0 {
        caps.push(format!(
            "shrinking: time cap — {} failing (input, clause) pairs (the longest ones) were not reduced to a core and are NOT reported as violations in this run",
            not_classified
        ));
    }
    timing("shrinking done", budget);
    // group by signature
    let mut groups: BTreeMap<String, Vec<(String, Kind, String, String, &'static str)>> = BTreeMap::new();
    for s in shrunk {
        let sig = format!("{}: {}", s.1.name(), shrink::visible(&s.0));
        groups.entry(sig).or_default().push(s);
    }
    let mut violations = Vec::new();
    for (sig, members) in &groups {
        let mut m: Vec<&(String, Kind, String, String, &'static str)> = members.iter().collect();
        m.sort_by(|a, b| a.2.len().cmp(&b.2.len()).then(a.2.cmp(&b.2)));
        let first = m[0];
        let core = &first.0;
        // the detail of the core itself
        let core_detail = match oracle::check_with(core, None, Some(first.1)) {
            Outcome::Fail(fs) => fs.into_iter().next().map(|f| f.detail).unwrap_or_default(),
            _ => first.3.clone(),
        };
        let classes_hit: BTreeSet<&str> = m.iter().map(|x| x.4).collect();
        violations.push(Violation {
            signature: sig.clone(),
            summary: format!(
                "{} failing input(s) (classes {:?}) shrink to the core `{}`: {}; smallest original witness: `{}`",
                m.len(),
                classes_hit,
                shrink::visible(core),
                core_detail,
                shrink::visible(&first.2)
            ),
            replay: json!({"engine": "c17", "kind": first.1.name(), "source": core, "original_witness": first.2, "class": first.4}),
        });
    }

    // ---- coverage --------------------------------------------------------------------------------
    let mut evaluations = 0usize;
    let mut all_hashes: Vec<u64> = Vec::new();
    let mut per_class = serde_json::Map::new();
    let mut samples: Vec<String> = Vec::new();
    let mut selfcheck_failed = 0usize;
    for (name, st) in &classes {
        evaluations += st.generated;
        all_hashes.extend(st.nontrivial_hashes.iter().copied());
        per_class.insert(name.to_string(), st.to_json());
        selfcheck_failed += st.selfcheck_failed;
        for s in st.samples.iter().take(2) {
            samples.push(format!("[{}] {}", name, shrink::visible(s)));
        }
    }
    all_hashes.sort_unstable();
    all_hashes.dedup();
    let coverage = json!({
        "evaluations": evaluations,
        "distinct_nontrivial": all_hashes.len(),
        "rule": "A case is one source text. Classes: (i) every corpus source (std/*.qv whole and per top-level item, plain string literals of evaluate(/then_evaluate( in quiver-tests, fenced quiver blocks of docs/spec.md whole and per paragraph, examples/**); (ii) all programs of a small grammar up to n nodes rendered by an independent renderer in 3 spacing styles; (iii) identifiers/literals of base programs stretched to lengths {1,9,17,33} (all at once, each alone) and, thorough, one token swept over every length 1..=110; (iv) a line comment (` // cK⏎` or `⏎// cK⏎`) or a blank line (`⏎⏎`) inserted at every token start/end outside string text: all single insertions, and (thorough) all pairs within one top-level statement whose members each pass alone; (v) single- and multi-line string shapes up to 3 segments in 6 contexts. Every case the parser accepts is judged by all oracle clauses (output parses; format(format(s))==format(s); normalize_blocks(lift) ASTs equal; input comments are a subsequence of output comments by an independent lexer; on a stride identical bytecode). Rejected inputs are outside the quantifier and only counted. A case is NON-TRIVIAL when the parser accepts it and the formatter's output differs from the input text (beyond trailing whitespace), or spans several lines, or the input carries a comment, or a clause fails; distinct = distinct source texts (64-bit FNV of the text).",
        "samples": samples,
        "exhaustive": caps.is_empty(),
        "caps_hit": caps,
        "universe": J::Object(universe),
        "classes": J::Object(per_class),
        "failing_input_clause_pairs": failing.len(),
        "failing_pairs_not_classified_time_cap": not_classified,
        "distinct_minimal_cores": groups.len(),
        "shrink_oracle_calls": shrink_checks.load(Ordering::Relaxed),
        "lexer_selfcheck_failed_total": selfcheck_failed,
        "elapsed_s_rounded": (budget.elapsed() as u64),
    });
    let _ = tier;
    Ok(Report {
        property: "C17",
        level: "exploration",
        coverage,
        assumptions: vec![
            "Trailing whitespace of a comment is not part of the comment (the formatter trims it); comments are compared after trim_end.".into(),
            "The comment clause demands only that the input's comments appear in the output in order (as the statement says); an output with additional comments is counted, not judged.".into(),
            "The bytecode clause is judged only when the input compiles stand-alone with the core builtins and the bundled std (many corpus snippets depend on REPL state and do not).".into(),
            "Repository calls run in-process under catch_unwind; inputs are bounded in nesting depth (corpus depth, grammar n<=4), so no parser blow-up is expected and no child-process watchdog is used.".into(),
        ],
        violations,
    })
}

pub fn replay(replay: &J) -> Result<bool, String> {
    crate::infra::quiet_panics();
    let src = replay["source"].as_str().ok_or("replay has no `source`")?;
    let only = replay["kind"].as_str().and_then(Kind::from_name);
    let b = crate::qcompile::core_builtins();
    println!("  input: `{}`", shrink::visible(src));
    match oracle::check(src, Some(&b)) {
        Outcome::Rejected => {
            println!("  observed: the parser rejects the input (outside the property)");
            Ok(false)
        }
        Outcome::Pass(info) => {
            println!("  observed: all clauses hold ({:?})", info);
            Ok(false)
        }
        Outcome::Fail(fs) => {
            let mut hit = false;
            for f in &fs {
                println!("  clause {} VIOLATED: {}", f.kind.name(), f.detail);
                if replay["shrink"].as_bool() == Some(true) {
                    let mut sh = shrink::Shrinker::new(f.kind, Some(&b));
                    let core = sh.shrink(src);
                    println!("    minimal core ({} oracle calls): `{}`", sh.checks, shrink::visible(&core));
                }
                if only.is_none() || only == Some(f.kind) {
                    hit = true;
                }
            }
            Ok(hit || only.is_none())
        }
    }
}
