//! Single-process execution of compiled bytecode with an instruction budget (what
//! `quiver_core::execute_bytecode_sync` does, minus its unbounded loop).

use quiver_core::bytecode::Bytecode;
use quiver_core::compatibility::{
    CompatibilityInput, compute_canonical_tuples, compute_param_compatibility,
    compute_type_compatibility,
};
use quiver_core::error::Error;
use quiver_core::executor::{Executor, ProgramUpdate};
use quiver_core::value::Value;
use quiver_io::NativeEffect;

pub enum Run {
    Value(Value, Executor<NativeEffect>),
    Error(Error),
    /// instruction budget exhausted ("does not terminate" — never judged)
    Budget,
    /// the program needs the multi-process runtime (spawn/send/select/effects)
    NeedsRuntime,
    Panic(String),
}

pub fn run(
    bytecode: Bytecode,
    builtins: &quiver_core::builtins::BuiltinRegistry<NativeEffect>,
    max_slices: usize,
    profile: bool,
) -> Run {
    let r = std::panic::catch_unwind(std::panic::AssertUnwindSafe(|| run_inner(bytecode, builtins, max_slices, profile)));
    match r {
        Ok(r) => r,
        Err(_) => Run::Panic(crate::sim::system::take_panic()),
    }
}

fn run_inner(
    bytecode: Bytecode,
    builtins: &quiver_core::builtins::BuiltinRegistry<NativeEffect>,
    max_slices: usize,
    profile: bool,
) -> Run {
    let Some(entry) = bytecode.entry else {
        return Run::Error(Error::InvalidArgument("no entry".into()));
    };
    let mut executor = Executor::new(builtins.clone(), profile, 0);
    let input = CompatibilityInput {
        types: &bytecode.types,
        tuples: &bytecode.tuples,
        functions: &bytecode.functions,
        builtins: &bytecode.builtins,
        resource_names: &bytecode.resources,
    };
    let type_compatibility = compute_type_compatibility(&input);
    let canonical_tuples = compute_canonical_tuples(&bytecode.tuples);
    let (function_param_compatibility, builtin_param_compatibility) = compute_param_compatibility(&input);
    let update = ProgramUpdate {
        constants: bytecode.constants,
        functions: bytecode.functions,
        tuples: bytecode.tuples[2..].to_vec(),
        types: bytecode.types,
        builtins: bytecode.builtins,
        resources: bytecode.resources,
        type_compatibility,
        function_param_compatibility,
        builtin_param_compatibility,
        canonical_tuples,
    };
    executor.update_program(update);
    if let Err(e) = executor.spawn_process(0, Some(entry), vec![], Value::nil(), vec![], false) {
        return Run::Error(e);
    }
    for _ in 0..max_slices {
        let (did_work, action) = executor.step(1000, 0);
        if action.is_some() {
            return Run::NeedsRuntime;
        }
        let Some(p) = executor.get_process(0) else {
            return Run::Error(Error::InvalidArgument("process disappeared".into()));
        };
        if let Some(r) = &p.result {
            return match r {
                Ok(v) => {
                    let v = v.clone();
                    if let Err(e) = executor.check_refcounts() {
                        return Run::Panic(format!("refcount invariant violated after sync execution: {}", e));
                    }
                    Run::Value(v, executor)
                }
                Err(e) => Run::Error(e.clone()),
            };
        }
        if !did_work {
            // parked (select/spawn) without an action: needs the runtime
            return Run::NeedsRuntime;
        }
    }
    Run::Budget
}

/// Classify a runtime error: stuck-state (a type-soundness failure) vs value-domain.
pub fn is_stuck_state(e: &Error) -> bool {
    match e {
        Error::StackUnderflow
        | Error::CallInvalid
        | Error::FunctionUndefined(_)
        | Error::BuiltinUndefined(_)
        | Error::FrameUnderflow
        | Error::VariableUndefined(_)
        | Error::ConstantUndefined(_)
        | Error::FieldAccessInvalid(_)
        | Error::TypeMismatch { .. }
        | Error::ArityMismatch { .. }
        | Error::TupleEmpty
        | Error::ScopeCountInvalid { .. }
        | Error::ScopeUnderflow => true,
        Error::OperationNotAllowed { .. } => false,
        Error::InvalidArgument(msg) => {
            const INTERNAL: &[&str] = &[
                "Process not found",
                "Select state missing",
                "not in mapping",
                "Heap binary index",
                "Heap index",
                "Unrecognised builtin",
                "Receive result should be present",
                "Invalid select source",
                "Getting BinaryData from constant",
            ];
            INTERNAL.iter().any(|m| msg.contains(m))
        }
    }
}

pub fn error_kind(e: &Error) -> String {
    let s = format!("{:?}", e);
    s.split(|c: char| c == '(' || c == ' ' || c == '{').next().unwrap_or("").to_string()
}
