//! Shared infrastructure: tiers, evidence files, replay artefacts, known findings, exit codes.

use serde_json::{Value as J, json};
use std::collections::BTreeMap;
use std::path::{Path, PathBuf};
use std::time::Instant;

#[derive(Clone, Copy, PartialEq, Eq, Debug)]
pub enum Tier {
    Quick,
    Thorough,
}

impl Tier {
    pub fn name(self) -> &'static str {
        match self {
            Tier::Quick => "quick",
            Tier::Thorough => "thorough",
        }
    }
}

pub fn verif_root() -> PathBuf {
    std::env::var_os("VERIF_ROOT")
        .map(PathBuf::from)
        .unwrap_or_else(|| PathBuf::from("/verif"))
}

pub fn repo_root() -> PathBuf {
    std::env::var_os("VERIF_REPO")
        .map(PathBuf::from)
        .unwrap_or_else(|| PathBuf::from("/repo"))
}

pub fn seed() -> i64 {
    std::env::var("VERIF_SEED")
        .ok()
        .and_then(|s| s.parse().ok())
        .unwrap_or(0)
}

/// One violation found by a check. `signature` identifies the *failing thing itself* (scenario +
/// invariant + role, or the shrunk minimal core of a failing input) and is what the known-findings
/// file lists; `replay` is everything needed to re-run that one case without the explorer.
#[derive(Clone, Debug)]
pub struct Violation {
    pub signature: String,
    pub summary: String,
    pub replay: J,
}

/// What a check returns: coverage counters (measured during the run) and violations.
pub struct Report {
    pub property: &'static str,
    pub level: &'static str,
    pub coverage: J,
    pub assumptions: Vec<String>,
    pub violations: Vec<Violation>,
}

#[derive(Clone, Debug)]
pub struct KnownFinding {
    pub property: String,
    pub id: String,
    pub what: String,
    pub status: String,
    pub signatures: Vec<String>,
}

pub fn load_known_findings() -> Vec<KnownFinding> {
    let path = verif_root().join("known_findings.json");
    let Ok(text) = std::fs::read_to_string(&path) else {
        return vec![];
    };
    let Ok(j) = serde_json::from_str::<J>(&text) else {
        eprintln!("machinery: cannot parse {}", path.display());
        std::process::exit(2);
    };
    let mut out = vec![];
    for f in j["findings"].as_array().cloned().unwrap_or_default() {
        out.push(KnownFinding {
            property: f["property"].as_str().unwrap_or("").to_string(),
            id: f["id"].as_str().unwrap_or("").to_string(),
            what: f["what"].as_str().unwrap_or("").to_string(),
            status: f["status"].as_str().unwrap_or("open").to_string(),
            signatures: f["signatures"]
                .as_array()
                .map(|a| {
                    a.iter()
                        .filter_map(|s| s.as_str().map(|s| s.to_string()))
                        .collect()
                })
                .unwrap_or_default(),
        });
    }
    out
}

fn fnv64(s: &str) -> u64 {
    let mut h: u64 = 0xcbf29ce484222325;
    for b in s.bytes() {
        h ^= b as u64;
        h = h.wrapping_mul(0x100000001b3);
    }
    h
}

/// Finish a run: triage violations against the known-findings file, write replay artefacts and
/// the evidence file, print the interface lines, and return the exit code.
pub fn finish(report: Report, tier: Tier, started: Instant) -> i32 {
    let root = verif_root();
    let known = load_known_findings();
    let mut known_hits: BTreeMap<String, (String, usize)> = BTreeMap::new();
    let mut unknown: BTreeMap<String, Violation> = BTreeMap::new();
    for v in &report.violations {
        let hit = known.iter().find(|k| {
            k.property == report.property
                && k.status == "open"
                && k.signatures.iter().any(|s| s == &v.signature)
        });
        match hit {
            Some(k) => {
                let e = known_hits
                    .entry(k.id.clone())
                    .or_insert((k.what.clone(), 0));
                e.1 += 1;
            }
            None => {
                unknown.entry(v.signature.clone()).or_insert(v.clone());
            }
        }
    }
    for (id, (what, n)) in &known_hits {
        println!(
            "KNOWN-FINDING: property={} {} [{}; {} witness(es) this run]",
            report.property, what, id, n
        );
    }
    let mut exit = 0;
    let replay_dir = root.join("replays").join(report.property);
    for (sig, v) in &unknown {
        let _ = std::fs::create_dir_all(&replay_dir);
        let path = replay_dir.join(format!("{:016x}.json", fnv64(sig)));
        let body = json!({
            "property": report.property,
            "signature": sig,
            "summary": v.summary,
            "replay": v.replay,
        });
        let _ = std::fs::write(&path, serde_json::to_string_pretty(&body).unwrap());
        println!("VIOLATION property={} replay={}", report.property, path.display());
        println!("  signature: {}", sig);
        println!("  summary: {}", v.summary);
        exit = 1;
    }
    let wall = started.elapsed().as_secs_f64();
    let mut coverage = report.coverage.clone();
    if let Some(obj) = coverage.as_object_mut() {
        obj.insert(
            "known_findings_witnessed".into(),
            json!(known_hits.keys().collect::<Vec<_>>()),
        );
        obj.insert(
            "unlisted_violation_signatures".into(),
            json!(unknown.keys().take(20).collect::<Vec<_>>()),
        );
    }
    let evidence = json!({
        "property_id": report.property,
        "tier": tier.name(),
        "seed": seed(),
        "level": report.level,
        "coverage": coverage,
        "assumptions": report.assumptions,
        "wall_s": wall,
        "violations": unknown.len(),
    });
    let ev_dir = root.join("evidence");
    let _ = std::fs::create_dir_all(&ev_dir);
    let ev_path = ev_dir.join(format!("{}.json", report.property));
    if let Err(e) = std::fs::write(&ev_path, serde_json::to_string_pretty(&evidence).unwrap()) {
        eprintln!("machinery: cannot write {}: {}", ev_path.display(), e);
        return 2;
    }
    println!(
        "{} {} tier={} wall={:.1}s violations={} known={} evidence={}",
        report.property,
        if exit == 0 { "HELD" } else { "VIOLATED" },
        tier.name(),
        wall,
        unknown.len(),
        known_hits.len(),
        ev_path.display()
    );
    exit
}

pub fn read_replay(path: &Path) -> J {
    let text = std::fs::read_to_string(path).unwrap_or_else(|e| {
        eprintln!("machinery: cannot read replay {}: {}", path.display(), e);
        std::process::exit(2);
    });
    serde_json::from_str(&text).unwrap_or_else(|e| {
        eprintln!("machinery: cannot parse replay {}: {}", path.display(), e);
        std::process::exit(2);
    })
}

/// Wall-clock budget helper: engines stop *between* units of work when the budget is used up and
/// report the cap in their evidence.
pub struct Budget {
    start: Instant,
    limit_s: f64,
}

impl Budget {
    pub fn new(limit_s: f64) -> Self {
        Self {
            start: Instant::now(),
            limit_s,
        }
    }
    pub fn exhausted(&self) -> bool {
        self.start.elapsed().as_secs_f64() > self.limit_s
    }
    pub fn elapsed(&self) -> f64 {
        self.start.elapsed().as_secs_f64()
    }
}

/// Silence the default panic message for panics that the engines catch on purpose.
pub fn quiet_panics() {
    std::panic::set_hook(Box::new(|_| {}));
}
