//! C13 — Equality is structural, construction-independent, and refs are unique.
//!
//! Bounded-exhaustive exploration. Three parts:
//!  * Engine 1 (`e1`): every ordered pair of (value, construction path) operands as one program on
//!    the single-process executor, compared by `a =&b` and `[a, b] =[x, x]`; every operand against
//!    every literal pattern; self forms; every triple the implementation calls equal as
//!    `[a, b, c] =[x, x, x]`.
//!  * Engine 2 (`e2`): the same matrix through real REPL sessions on W workers (operands bound on
//!    their own REPL lines, program updated in between), plus the remote paths (message, built in /
//!    captured by another process) and process values.
//!  * refs(n) (`refs`): n processes mint refs and hand them to a collector that compares all pairs,
//!    under every round-robin placement for W in {1,2,3} (default schedule), and a subset under
//!    every schedule with <= 2 deviations (Engine A explorer).
//! Oracle: the host-side structural equality `vals::host_eq`.

mod case;
mod e1;
mod e2;
mod paths;
mod refs;
mod shrink;
mod vals;

use crate::infra::{Budget, Report, Tier, Violation};
use case::*;
use paths::*;
use rayon::prelude::*;
use serde_json::{Value as J, json};
use std::collections::{BTreeMap, BTreeSet};
use vals::*;

const ASSUMPTIONS: &[&str] = &[
    "the value universe, the construction paths and the comparison forms are the finite sets listed in coverage.universe; values, paths or forms outside them are out of reach",
    "two textually identical function definitions written at two places are NOT treated as 'the same definition' nor as different ones (the property does not say): every function value of the universe comes from exactly one definition site",
    "a literal tuple pattern whose name or labels differ from the value's is not judged (the documentation's destructuring examples contradict the implementation there); literal int/binary patterns and same-shape tuple patterns are judged",
    "Engine 2 and refs(n) run on the simulator's default (round-robin) schedule; only the refs subset listed under coverage.refs.schedules is explored over schedules (<= 2 deviations)",
    "crate::sim (the deterministic re-hosting of Environment/Worker/Executor) is equivalent to the threaded runtime (assumption of Engine A)",
];

struct Sizes {
    thorough: bool,
    e2_workers_full: Vec<usize>,
    e2_workers_remote: Vec<usize>,
    e1_batch: usize,
    e2_block: usize,
    e2_chunk: usize,
    triple_cap: usize,
    refs_n: usize,
    budget_e1: f64,
    budget_e2: f64,
    budget_refs: f64,
    budget_sched: f64,
    budget_triage: f64,
    /// wall budget of the whole run; a phase may use the slack its predecessors left, as long
    /// as the nominal budgets of the phases after it stay reserved
    budget_total: f64,
}

fn sizes(tier: Tier) -> Sizes {
    let mut s = sizes0(tier);
    // testing aid on a loaded machine: scale every wall budget
    if let Some(k) = std::env::var("C13_BUDGET_SCALE").ok().and_then(|s| s.parse::<f64>().ok()) {
        s.budget_e1 *= k;
        s.budget_e2 *= k;
        s.budget_refs *= k;
        s.budget_sched *= k;
        s.budget_triage *= k;
        s.budget_total *= k;
    }
    s
}

fn cpu_seconds() -> f64 {
    // utime + stime of this process, in clock ticks (100/s on Linux); testing aid only
    std::fs::read_to_string("/proc/self/stat")
        .ok()
        .and_then(|s| {
            let rest = s.rsplit_once(')')?.1.to_string();
            let f: Vec<&str> = rest.split_whitespace().collect();
            Some((f.get(11)?.parse::<f64>().ok()? + f.get(12)?.parse::<f64>().ok()?) / 100.0)
        })
        .unwrap_or(0.0)
}

fn phase(name: &str, t: &std::time::Instant) {
    if std::env::var_os("C13_TIMING").is_some() {
        eprintln!("[c13] {:<28} at {:>7.2}s wall, {:>8.2}s cpu", name, t.elapsed().as_secs_f64(), cpu_seconds());
    }
}

/// Wall budget of a phase: its nominal budget, plus whatever slack the earlier phases left, while
/// `reserve` (the nominal budgets of all later phases) stays untouched.
fn allot(t0: &std::time::Instant, total: f64, nominal: f64, reserve: f64) -> f64 {
    (total - t0.elapsed().as_secs_f64() - reserve).max(nominal.min(1.0)).max(0.5)
}

fn sizes0(tier: Tier) -> Sizes {
    match tier {
        Tier::Quick => Sizes {
            thorough: false,
            e2_workers_full: vec![2],
            e2_workers_remote: vec![1, 3],
            e1_batch: 8,
            e2_block: 48,
            e2_chunk: 12,
            triple_cap: 60_000,
            refs_n: 3,
            budget_e1: 7.5,
            budget_e2: 7.5,
            budget_refs: 2.0,
            budget_sched: 3.0,
            budget_triage: 2.5,
            budget_total: 27.5,
        },
        Tier::Thorough => Sizes {
            thorough: true,
            e2_workers_full: vec![2],
            e2_workers_remote: vec![1, 3],
            e1_batch: 8,
            e2_block: 64,
            e2_chunk: 12,
            triple_cap: 1_500_000,
            refs_n: 4,
            budget_e1: 160.0,
            budget_e2: 250.0,
            budget_refs: 30.0,
            budget_sched: 70.0,
            budget_triage: 60.0,
            budget_total: 670.0,
        },
    }
}

fn e1_values(thorough: bool) -> Vec<Val> {
    let mut v = data_values(&params(thorough));
    v.extend(fun_values());
    v.extend(opaque_values(&[0, 1]));
    v
}

fn e2_values(thorough: bool) -> Vec<Val> {
    // quick: a small hand-listed data universe; thorough: Engine 1's quick universe. Plus function
    // values, refs (one of them minted in another process) and process values.
    let mut v = if thorough { data_values(&params(false)) } else { e2_quick_data() };
    if thorough {
        v.extend(fun_values());
        v.extend(opaque_values(&[0, 1, 2]));
    } else {
        v.extend(e2_quick_opaque());
    }
    for p in [0u8, 1, 2, PROC_SELFRET, PROC_REPL] {
        v.push(Val::Proc(p));
    }
    v.push(tup(None, vec![(None, Val::Proc(0))]));
    v
}

fn violation_for_case(shrunk: &Case, original: &Case, n_inputs: usize) -> Violation {
    let r = eval_case(shrunk);
    let exp = match r.expected {
        Some(true) => "Ok",
        Some(false) => "[]",
        None => "?",
    };
    let obs = match &r.obs {
        Obs::Verdict(true) => "Ok".to_string(),
        Obs::Verdict(false) => "[]".to_string(),
        other => format!("{:?}", other),
    };
    let mut replay = case_to_json(shrunk);
    replay["original"] = case_to_json(original);
    Violation {
        signature: case_signature(shrunk),
        summary: format!(
            "observed {} expected {} for `{}` ({} failing input(s) shrink to this core; first: {})",
            obs,
            exp,
            r.program.replace('\n', " ; "),
            n_inputs,
            case_signature(original)
        ),
        replay,
    }
}

/// Shrink all failing inputs; group by minimal core.
fn triage(mut failing: Vec<Failing>, budget: &Budget) -> Vec<Violation> {
    let memo = shrink::Memo::new();
    // simplest first; the first 600 are always shrunk (so that the known root causes of the
    // unchanged tree never surface as unshrunk inputs), the rest while the budget lasts
    failing.sort_by(|a, b| (shrink::measure(&a.case), &a.case).cmp(&(shrink::measure(&b.case), &b.case)));
    let indexed: Vec<(usize, &Failing)> = failing.iter().enumerate().collect();
    // (shrunk core, "does not fail when run alone", input)
    let shrunk: Vec<(Option<Case>, bool, &Failing)> = indexed
        .par_iter()
        .map(|(n, f)| {
            let f = *f;
            crate::sim::system::install_panic_recorder();
            if *n >= 600 && budget.exhausted() {
                return (None, false, f);
            }
            if !memo.fails(&f.case) {
                // not reproducible in isolation: keep the batch / session context as the witness
                return (None, true, f);
            }
            (Some(shrink::shrink(&f.case, &memo)), false, f)
        })
        .collect();
    let mut groups: BTreeMap<String, (Case, Case, usize)> = BTreeMap::new();
    let mut out = vec![];
    let mut unshrunk: Vec<&Failing> = vec![];
    let mut in_context_only = 0usize;
    for (s, alone_ok, f) in shrunk {
        match s {
            Some(s) => {
                let sig = case_signature(&s);
                let e = groups.entry(sig).or_insert((s.clone(), f.case.clone(), 0));
                e.2 += 1;
                if shrink::measure(&f.case) < shrink::measure(&e.1) {
                    e.1 = f.case.clone();
                }
            }
            None => {
                let exp = expected(f.case.form, &f.case.ops);
                match &f.context {
                    Some(ctx) if alone_ok && in_context_only < 20 => {
                        in_context_only += 1;
                        out.push(Violation {
                            signature: format!("only-in-session | {}", case_signature(&f.case)),
                            summary: format!(
                                "inside its batch program / REPL session the case yields the wrong verdict (expected {:?}) but not when run alone; final line `{}` verdict #{}",
                                exp, ctx.fin, ctx.index
                            ),
                            replay: json!({"engine": "c13", "kind": "script", "context": context_to_json(ctx),
                                           "expected": exp, "case": case_to_json(&f.case)}),
                        })
                    }
                    _ => unshrunk.push(f),
                }
            }
        }
    }
    if let Some(f) = unshrunk.first() {
        // one aggregated violation: the simplest failing input that was not shrunk
        out.push(Violation {
            signature: format!("unshrunk | {}", case_signature(&f.case)),
            summary: format!(
                "{} failing input(s) were not shrunk (triage budget exhausted, or not reproducible outside their batch); this is the simplest",
                unshrunk.len()
            ),
            replay: case_to_json(&f.case),
        });
    }
    for (_, (s, orig, n)) in groups {
        out.push(violation_for_case(&s, &orig, n));
    }
    out
}

fn law_violations(l: &e1::Laws, ops: &[Operand], engine: Engine, failing: &BTreeSet<(Form, Vec<Operand>)>) -> Vec<Violation> {
    let mut out = vec![];
    for (law, idx, form) in &l.violations {
        // already explained by an oracle mismatch on one of the involved ordered pairs?
        let pairs: Vec<(usize, usize)> = match idx.len() {
            2 => vec![(idx[0], idx[1]), (idx[1], idx[0])],
            _ => vec![(idx[0], idx[1]), (idx[1], idx[2]), (idx[0], idx[2])],
        };
        if pairs.iter().any(|(i, j)| failing.contains(&(*form, vec![ops[*i].clone(), ops[*j].clone()]))) {
            continue;
        }
        let text: Vec<String> = idx.iter().map(|i| operand_text(&ops[*i])).collect();
        out.push(Violation {
            signature: format!("{} {} {} | {}", engine.name(), law, form.name(), text.join(" | ")),
            summary: format!("the verdict matrix of {} violates {} on these operands", form.name(), law),
            replay: json!({"engine": "c13", "kind": "law", "law": law, "run_on": engine.name(), "form": form.name(),
                           "operands": idx.iter().map(|i| json!({"value": to_json(&ops[*i].v), "path": ops[*i].path.name()})).collect::<Vec<_>>()}),
        });
    }
    out
}

fn universe_json(values: &[Val], ops: &[Operand]) -> J {
    let mut by_path: BTreeMap<&'static str, usize> = BTreeMap::new();
    for o in ops {
        *by_path.entry(o.path.name()).or_insert(0) += 1;
    }
    let mut by_kind: BTreeMap<&'static str, usize> = BTreeMap::new();
    for v in values {
        *by_kind.entry(v.kind()).or_insert(0) += 1;
    }
    json!({
        "values": values.len(),
        "values_by_kind": by_kind,
        "max_depth": values.iter().map(|v| v.depth()).max().unwrap_or(0),
        "operands": ops.len(),
        "operands_by_path": by_path,
        "first_values": values.iter().take(12).map(show).collect::<Vec<_>>(),
        "last_values": values.iter().rev().take(6).map(show).collect::<Vec<_>>(),
    })
}

pub fn run(tier: Tier) -> Result<Report, String> {
    crate::sim::system::install_panic_recorder();
    let t0 = std::time::Instant::now();
    let sz = sizes(tier);
    let seed = crate::infra::seed().unsigned_abs() as usize;
    let mut violations: Vec<Violation> = vec![];
    let mut caps: Vec<String> = vec![];
    let mut samples: Vec<J> = vec![];
    let mut total = e1::Counters::default();
    let mut failing_all: Vec<Failing> = vec![];

    // ------------------------------------------------------------------ Engine 1
    let values1 = e1_values(sz.thorough);
    let patterns1: Vec<Val> = values1.iter().filter(|v| v.is_data()).cloned().collect();
    let all1 = e1::combos(&values1, &|p| !p.remote());
    let (ops1, excluded1) = e1::validate(Engine::E1, all1);
    phase("e1 validated", &t0);
    let after_e2 = sz.budget_refs + sz.budget_sched + sz.budget_triage;
    let e1_side = sz.budget_e1 * 0.25;
    let b1 = Budget::new(allot(&t0, sz.budget_total, sz.budget_e1, 2.0 * e1_side + sz.budget_e2 + after_e2));
    let mut o1 = e1::run_pairs(&ops1, sz.e1_batch, &b1, seed);
    phase("e1 pairs done", &t0);
    let b1u = Budget::new(allot(&t0, sz.budget_total, e1_side, e1_side + sz.budget_e2 + after_e2));
    let (cu, fu, unary_complete) = e1::run_unary(&ops1, &patterns1, &b1u);
    phase("e1 unary done", &t0);
    let laws1 = e1::laws(&o1.matrix);
    let b1t = Budget::new(allot(&t0, sz.budget_total, e1_side, sz.budget_e2 + after_e2));
    let (ct, ft, triples, triples_complete) = e1::run_triples(&ops1, &o1.matrix, sz.triple_cap, &b1t);
    phase("e1 triples done", &t0);
    let ast_checks = AST_CROSSCHECKS.load(std::sync::atomic::Ordering::Relaxed);
    let ast_bad = AST_MISMATCHES.load(std::sync::atomic::Ordering::Relaxed);
    if ast_bad > 0 {
        return Err(format!("{} of {} cross-checks found the assembled AST different from the parsed program text", ast_bad, ast_checks));
    }
    if !o1.complete || !unary_complete {
        caps.push(format!("engine1: wall budget (nominal {}s + slack) reached before all pairs / unary forms were run", sz.budget_e1));
    }
    if !triples_complete {
        caps.push(format!("engine1: triples capped at {} or stopped by the wall budget", sz.triple_cap));
    }
    let mut c1 = e1::Counters::default();
    c1.add(&o1.counters);
    c1.add(&cu);
    c1.add(&ct);
    let on_heap = |path: Path| {
        ops1.iter()
            .filter(|o| matches!(o.v, Val::Bin(_)) && o.path == path)
            .filter(|o| {
                let sc = build_script(&[(*o).clone()], 1);
                e1_result_is_heap_binary(&sc.lines, "a") == Some(true)
            })
            .count()
    };
    let heap_confirmed = on_heap(Path::Comp);
    let literal_on_heap = on_heap(Path::Lit);
    let fail_set1: BTreeSet<(Form, Vec<Operand>)> = o1.failing.iter().map(|f| (f.case.form, f.case.ops.clone())).collect();
    violations.extend(law_violations(&laws1, &ops1, Engine::E1, &fail_set1));
    failing_all.extend(o1.failing.drain(..));
    for c in fu.into_iter().chain(ft) {
        failing_all.push(Failing { case: c, context: None });
    }
    samples.extend(o1.samples.clone());
    total.add(&c1);
    let e1_json = json!({
        "what": "one program per ordered pair of operands, run by execute_bytecode_sync; both pin and repeated-binder verdicts; plus self forms, literal patterns, triples",
        "universe": universe_json(&values1, &ops1),
        "operands_excluded_because_construction_failed": excluded1.iter().map(|(o, e)| format!("{}: {}", operand_text(o), e)).collect::<Vec<_>>(),
        "literal_patterns": patterns1.len(),
        "ordered_pairs": ops1.len() * ops1.len(),
        "counters": c1.json(),
        "computed_binaries_confirmed_on_heap": heap_confirmed,
        "literal_binaries_found_on_heap_too": literal_on_heap,
        "note_on_binaries": "the executor materialises binary constants on its heap (cached_constant_binary), so Binary::Constant values never reach Equal: 'heap vs. constant' is not a live distinction at run time; what varies between paths is which heap slot (constant cache, builtin result, message payload) holds the bytes",
        "programs_assembled_from_cached_line_asts_crosschecked_against_parser": ast_checks,
        "excluded_constructs": "bulk programs never put two matches on one variable into sibling tuple fields un-scoped: every comparison of a batch sits in a block of its own, because what the compiler infers from one (possibly failing) match leaks into sibling fields; that construct is carried by the form literal-pattern-after-sibling-match",
        "laws_on_verdict_matrix": {"reflexive_checked": laws1.reflexive_checked, "symmetric_checked": laws1.symmetric_checked,
                                    "transitive_chains_checked": laws1.transitive_checked, "transitive_capped": laws1.capped, "violations": laws1.violations.len()},
        "triples_called_equal_by_impl_run_as_3_binder": triples,
        "failing_inputs": failing_all.len(),
        "complete": o1.complete && unary_complete && triples_complete,
    });

    // ------------------------------------------------------------------ Engine 2
    let values2 = e2_values(sz.thorough);
    let patterns2: Vec<Val> = values2.iter().filter(|v| v.is_data()).cloned().collect();
    let all2 = e1::combos(&values2, &|_| true);
    let mut e2_runs = vec![];
    let mut e2_ops_json = json!(null);
    let everything = |_: &Operand, _: &Operand| true;
    let remote_only = |a: &Operand, b: &Operand| {
        let special = |o: &Operand| o.path.remote() || matches!(o.v, Val::Proc(_) | Val::Ref(_)) || show(&o.v).contains("r2");
        (special(a) && (special(b) || b.path == Path::Lit)) || (special(b) && a.path == Path::Lit)
    };
    let plans: Vec<(usize, bool)> = sz
        .e2_workers_full
        .iter()
        .map(|w| (*w, true))
        .chain(sz.e2_workers_remote.iter().map(|w| (*w, false)))
        .collect();
    let weight = |full: bool| if full { 1.0 } else { 0.25 };
    let weight_sum: f64 = plans.iter().map(|(_, full)| weight(*full)).sum();
    let mut weight_left = weight_sum;
    for (w, full) in plans {
        // every run gets its own share of the Engine-2 wall budget (plus slack left so far)
        weight_left -= weight(full);
        let nominal = sz.budget_e2 * weight(full) / weight_sum;
        let b2 = Budget::new(allot(&t0, sz.budget_total, nominal, sz.budget_e2 * weight_left / weight_sum + after_e2));
        phase("e2 run starts", &t0);
        let (ops2, excluded2) = e1::validate(Engine::E2(w), all2.clone());
        phase("e2 validated", &t0);
        if e2_ops_json.is_null() {
            e2_ops_json = universe_json(&values2, &ops2);
        }
        let filter: e2::PairFilter = if full { &everything } else { &remote_only };
        let pats: &[Val] = if full { &patterns2 } else { &[] };
        let mut o2 = e2::run_bulk(w, &ops2, filter, pats, sz.e2_block, sz.e2_chunk, &b2, seed)?;
        let laws2 = e1::laws(&o2.matrix);
        let fail_set2: BTreeSet<(Form, Vec<Operand>)> = o2.failing.iter().map(|f| (f.case.form, f.case.ops.clone())).collect();
        violations.extend(law_violations(&laws2, &ops2, Engine::E2(w), &fail_set2));
        if !o2.complete {
            caps.push(format!("engine2 W={}: its share of the wall budget (nominal {}s in total + slack) reached (or a session died during the unary forms)", w, sz.budget_e2));
        }
        total.add(&o2.counters);
        // a written-out sample: a message-path operand against its literal
        if let (Some(i), Some(j)) = (
            ops2.iter().position(|o| o.path == Path::Msg && show(&o.v) == "A[x: 1, y: 0x00]"),
            ops2.iter().position(|o| o.path == Path::Comp && show(&o.v) == "A[x: 1, y: 0x00]"),
        ) {
            let case = Case { engine: Engine::E2(w), form: Form::Rep, ops: vec![ops2[i].clone(), ops2[j].clone()] };
            let r = eval_case(&case);
            samples.push(json!({"case": case_signature(&case), "repl_lines": r.program.lines().collect::<Vec<_>>(),
                                "observed": format!("{:?}", r.obs), "expected": r.expected.map(|e| if e { "Ok" } else { "[]" })}));
        }
        e2_runs.push(json!({
            "workers": w,
            "pairs": if full { "all ordered pairs" } else { "ordered pairs of a special operand (remote path, ref or process value) with a special or literal-path operand" },
            "operands": ops2.len(),
            "operands_excluded_because_construction_failed": excluded2.iter().map(|(o, e)| format!("{}: {}", operand_text(o), e)).collect::<Vec<_>>(),
            "sessions": o2.sessions,
            "session_restarts_after_runtime_error": o2.restarts,
            "counters": o2.counters.json(),
            "laws_on_verdict_matrix": {"reflexive_checked": laws2.reflexive_checked, "symmetric_checked": laws2.symmetric_checked,
                                        "transitive_chains_checked": laws2.transitive_checked, "transitive_capped": laws2.capped, "violations": laws2.violations.len()},
            "failing_inputs": o2.failing.len(),
            "complete": o2.complete,
        }));
        failing_all.extend(o2.failing.drain(..));
    }
    let e2_json = json!({
        "what": "REPL sessions over the real Environment + W workers (default schedule): each operand bound on its own REPL lines, verdict lines batch 12 pairs x 2 forms; remote paths and process values included",
        "universe": e2_ops_json,
        "literal_patterns": patterns2.len(),
        "runs": e2_runs,
    });

    // ------------------------------------------------------------------ refs(n)
    phase("e2 done", &t0);
    let b3 = Budget::new(allot(&t0, sz.budget_total, sz.budget_refs, sz.budget_sched + sz.budget_triage));
    let r3 = refs::run_all(sz.refs_n, &b3, seed)?;
    if !r3.complete {
        caps.push(format!("refs: wall budget {}s reached", sz.budget_refs));
    }
    samples.extend(r3.samples.clone());
    let mut ref_groups: BTreeMap<String, (refs::Shape, String, usize)> = BTreeMap::new();
    for (s, r) in r3.failing.iter().take(200) {
        let m = refs::shrink_shape(s);
        let e = ref_groups.entry(m.text()).or_insert((m.clone(), r.fails.clone().unwrap_or_default(), 0));
        e.2 += 1;
    }
    for (sig, (shape, why, n)) in ref_groups {
        let r = refs::run_shape(&shape);
        violations.push(Violation {
            signature: sig,
            summary: format!("{} — observed {} expected {} ({} failing shapes shrink to this core; e.g. {})", r.fails.unwrap_or(why.clone()), r.observed, r.expected, n, why),
            replay: shape.to_json(),
        });
    }
    phase("refs done", &t0);
    let sched_budget = allot(&t0, sz.budget_total, sz.budget_sched, sz.budget_triage);
    let (sched_json, sched_violations) = refs_schedules(&sz, sched_budget)?;
    phase("refs schedules done", &t0);
    violations.extend(sched_violations);
    if sched_json["exhaustive"] == json!(false) {
        caps.push("refs schedules: wall budget reached before the deviation bound was completed on every job".to_string());
    }
    let ref_evals = r3.shapes;
    let refs_json = json!({
        "what": "n<=N minter processes x 1..2 refs each x main mints 0..1 x pads in {0..W-1}^n (shifts round-robin placement) x transport {await, message to collector, message + relay} x W in {1,2,3}; all ordered pairs compared by `=&` in the collector; refs also compared as raw values",
        "max_minters": sz.refs_n,
        "shapes_run": r3.shapes,
        "ordered_ref_pairs_compared": r3.pairs,
        "distinct_measured_placements(worker of each minted ref)": r3.placements.len(),
        "failing_shapes": r3.failing.len(),
        "complete": r3.complete,
        "schedules": sched_json,
    });

    // ------------------------------------------------------------------ triage
    let b4 = Budget::new(allot(&t0, sz.budget_total, sz.budget_triage, 0.0));
    let n_failing = failing_all.len();
    violations.extend(triage(failing_all, &b4));

    phase("triage done", &t0);
    total.evaluations += ref_evals;
    total.nontrivial += ref_evals;
    let exhaustive = caps.is_empty();
    let coverage = json!({
        "evaluations": total.evaluations,
        "distinct_nontrivial": total.nontrivial,
        "rule": "Cases are enumerated as the full product (value, path) x (value, path) x {pin `a =&b`, repeated binder `[a, b] =[x, x]`} (+ every operand x every literal pattern, self forms `a =&a` / `[a, a] =[x, x]`, and every chain i~j~k the implementation calls equal as `[a, b, c] =[x, x, x]`), in Engine 1 (one program) and again in Engine 2 (REPL session, W workers, with remote paths), plus every refs(n) shape. Each (engine, form, operand tuple) is a distinct case by construction. A case is NON-TRIVIAL when its two sides are not the same (value, path) text AND have the same kind (int/int, bin/bin, tuple/tuple, fun/fun, ref/ref, proc/proc), i.e. the verdict depends on content and on the runtime representations produced by the two constructions; every refs(n) shape counts as non-trivial. Compiler-rejected and documentation-undetermined cases are counted separately and not judged.",
        "exhaustive": exhaustive,
        "caps_hit": caps,
        "totals": total.json(),
        "failing_inputs_before_shrinking": n_failing,
        "engine1": e1_json,
        "engine2": e2_json,
        "refs": refs_json,
        "paths": ALL_PATHS.iter().map(|p| p.name()).collect::<Vec<_>>(),
        "forms": ["pin", "repeated-binder", "literal-pattern", "self-pin", "self-repeated-binder", "repeated-binder-3", "literal-pattern-after-sibling-match"],
        "samples": samples,
    });
    // deterministic order, one per signature
    let mut uniq: BTreeMap<String, Violation> = BTreeMap::new();
    for v in violations {
        uniq.entry(v.signature.clone()).or_insert(v);
    }
    // a defect that breaks equality wholesale yields one core per pair of minimal values: report
    // the 60 first (in signature order) and count the rest
    let distinct_cores = uniq.len();
    let mut coverage = coverage;
    coverage["distinct_violation_cores"] = json!(distinct_cores);
    coverage["violation_cores_not_reported_individually"] = json!(distinct_cores.saturating_sub(60));
    let uniq: BTreeMap<String, Violation> = uniq.into_iter().take(60).collect();
    Ok(Report {
        property: "C13",
        level: "exploration",
        coverage,
        assumptions: ASSUMPTIONS.iter().map(|s| s.to_string()).collect(),
        violations: uniq.into_values().collect(),
    })
}

// ---------------------------------------------------------------------------------------------
// refs under schedule exploration (Engine A)

const REF_INVARIANT: &str = "O-ref-identity";

fn sched_shapes(thorough: bool) -> Vec<refs::Shape> {
    use refs::{Shape, Transport};
    let mk = |mints: Vec<usize>, main_mints: usize, pads: Vec<usize>, transport: Transport| Shape { workers: 0, mints, main_mints, pads, transport };
    let mut v = vec![
        mk(vec![1, 1], 1, vec![0, 0], Transport::Await),
        mk(vec![2, 1], 0, vec![0, 0], Transport::Message),
        mk(vec![1, 1], 0, vec![0, 0], Transport::MessageRelay),
    ];
    if thorough {
        v.push(mk(vec![1, 1, 1], 1, vec![0, 0, 0], Transport::Message));
        v.push(mk(vec![2, 1], 1, vec![1, 0], Transport::MessageRelay));
        v.push(mk(vec![1, 2, 1], 0, vec![0, 1, 0], Transport::Await));
    }
    v
}

fn sched_expected(s: &refs::Shape) -> String {
    let l = refs::layout(s);
    let v: Vec<&str> = refs::expected_verdicts(&l).iter().map(|b| if *b { "Ok" } else { "[]" }).collect();
    format!("[[{}], {}]", v.join(", "), refs::expected_refs_rendering(&l))
}

fn sched_oracle(expected: &BTreeMap<String, String>, sc: &crate::sim::scenarios::Scenario, got: &crate::sim::Outcome) -> Option<(String, String)> {
    let want = expected.get(&sc.id)?;
    if got.entry.as_deref() != Some(want.as_str()) {
        return Some((
            REF_INVARIANT.to_string(),
            format!("collector result {:?}; same-minting demands {}", got.entry, want),
        ));
    }
    None
}

fn refs_schedules(sz: &Sizes, wall_budget_s: f64) -> Result<(J, Vec<Violation>), String> {
    use crate::sim::driver::{self, Plan};
    use crate::sim::scenarios::Scenario;
    let shapes = sched_shapes(sz.thorough);
    let mut expected: BTreeMap<String, String> = BTreeMap::new();
    let mut scenarios = vec![];
    for (i, s) in shapes.iter().enumerate() {
        let id = format!("c13-refs-{}-mints{:?}-main{}-pads{:?}-{}", i, s.mints, s.main_mints, s.pads, s.transport.name()).replace(' ', "");
        expected.insert(id.clone(), sched_expected(s));
        scenarios.push(Scenario { id, family: "refs", source: refs::program(s), confluent: true, io: false, expect: None });
    }
    let expected2 = expected.clone();
    let oracle = move |sc: &Scenario, _reference: &crate::sim::Outcome, got: &crate::sim::Outcome| sched_oracle(&expected2, sc, got);
    let monitor = |_: &Scenario, _: &crate::sim::system::Config| -> Box<dyn crate::sim::explore::Monitor> {
        Box::new(crate::sim::monitors::StdMonitor::default())
    };
    let thorough = sz.thorough;
    let plan = Plan {
        property: "C13",
        scenarios,
        configs: Box::new(move |sc| {
            let quanta: &[usize] = if thorough { &[1, 1000] } else { &[1000] };
            crate::sim::checks::grid(sc, &[1, 2, 3], quanta, false)
        }),
        bound: 2,
        bound_for: None,
        explicit: Box::new(|_, _| None),
        monitor: &monitor,
        oracle: Some(&oracle),
        wall_budget_s,
        assumptions: vec![],
        explanation: "refs(n) programs under every schedule with at most 2 deviations from the round-robin default, W in {1,2,3}; oracle: the collector's verdict tuple and the identity pattern of the refs equal what same-minting demands".to_string(),
    };
    let rep = driver::run_plan(plan)?;
    let mut violations = vec![];
    let mut ignored = 0;
    for v in rep.violations {
        if v.replay["invariant"].as_str() == Some(REF_INVARIANT) {
            let mut inner = v.replay.clone();
            inner["expected_entry"] = json!(expected.get(inner["scenario"].as_str().unwrap_or("")));
            violations.push(Violation {
                signature: format!("refs-schedule | {}", v.signature),
                summary: v.summary,
                replay: json!({"engine": "c13", "kind": "sim", "inner": inner}),
            });
        } else {
            // invariants of other properties (heap accounting, hangs, ...) are not C13's to judge
            ignored += 1;
        }
    }
    let c = &rep.coverage;
    Ok((
        json!({
            "scenarios": c["scenarios"], "jobs": c["jobs"], "configs": c["configs"], "schedules": c["schedules"],
            "actions": c["transitions"], "deviation_bound_requested": c["deviation_bound_requested"],
            "deviation_bound_completed": c["deviation_bound_completed"], "exhaustive": c["exhaustive"],
            "caps_hit": c["caps_hit"], "findings_of_other_properties_ignored": ignored,
            "shapes": shapes.iter().map(|s| s.text().replace("W=0 ", "")).collect::<Vec<_>>(),
        }),
        violations,
    ))
}

// ---------------------------------------------------------------------------------------------
// replay

pub fn replay(replay: &J) -> Result<bool, String> {
    crate::sim::system::install_panic_recorder();
    match replay["kind"].as_str() {
        Some("case") => {
            let case = case_from_json(replay)?;
            let r = eval_case(&case);
            println!("  case: {}", case_signature(&case));
            println!("  runs on: {}", case.engine.name());
            println!("  program / REPL lines:");
            for l in r.program.lines() {
                println!("    {}", l);
            }
            println!("  observed: {:?}", r.obs);
            println!("  expected: {}", match r.expected { Some(true) => "Ok", Some(false) => "[]", None => "(not judged)" });
            Ok(r.fails())
        }
        Some("script") => {
            let ctx = context_from_json(&replay["context"])?;
            let exp = replay["expected"].as_bool();
            let got = rerun_context(&ctx)?;
            println!("  session of {} lines on {} workers; final line `{}`; verdict #{}", ctx.lines.len(), ctx.workers, ctx.fin, ctx.index);
            println!("  observed: {:?}  expected: {:?}", got, exp);
            Ok(got.is_some() && exp.is_some() && got != exp)
        }
        Some("refs") => {
            let s = refs::Shape::from_json(replay)?;
            let r = refs::run_shape(&s);
            if let Some(e) = r.machinery {
                return Err(e);
            }
            println!("  shape: {}", s.text());
            for l in &r.script {
                println!("    {}", l);
            }
            println!("  observed: {}", r.observed);
            println!("  expected: {}", r.expected);
            Ok(r.fails.is_some())
        }
        Some("law") => {
            // re-evaluate every ordered pair among the operands and re-check the law
            let engine = Engine::from_name(replay["run_on"].as_str().unwrap_or("")).ok_or("run_on")?;
            let form = Form::from_name(replay["form"].as_str().unwrap_or("")).ok_or("form")?;
            let mut ops = vec![];
            for o in replay["operands"].as_array().ok_or("operands")? {
                ops.push(Operand { v: from_json(&o["value"])?, path: Path::from_name(o["path"].as_str().unwrap_or("")).ok_or("path")? });
            }
            let n = ops.len();
            let mut m = vec![vec![None; n]; n];
            for i in 0..n {
                for j in 0..n {
                    let r = eval_case(&Case { engine, form, ops: vec![ops[i].clone(), ops[j].clone()] });
                    if let Obs::Verdict(v) = r.obs {
                        m[i][j] = Some(v);
                    }
                    println!("  {} ~ {} : {:?}", operand_text(&ops[i]), operand_text(&ops[j]), r.obs);
                }
            }
            let bad = match replay["law"].as_str() {
                Some("reflexivity") => m[0][0] == Some(false),
                Some("symmetry") => m[0][1].is_some() && m[1][0].is_some() && m[0][1] != m[1][0],
                Some("transitivity") => n == 3 && m[0][1] == Some(true) && m[1][2] == Some(true) && m[0][2] == Some(false),
                _ => false,
            };
            Ok(bad)
        }
        Some("sim") => {
            let inner = &replay["inner"];
            let mut expected = BTreeMap::new();
            expected.insert(
                inner["scenario"].as_str().unwrap_or("").to_string(),
                inner["expected_entry"].as_str().unwrap_or("").to_string(),
            );
            let oracle = move |sc: &crate::sim::scenarios::Scenario, _r: &crate::sim::Outcome, got: &crate::sim::Outcome| sched_oracle(&expected, sc, got);
            let monitor = |_: &crate::sim::scenarios::Scenario, _: &crate::sim::system::Config| -> Box<dyn crate::sim::explore::Monitor> {
                Box::new(crate::sim::monitors::StdMonitor::default())
            };
            crate::sim::driver::replay(inner, &monitor, Some(&oracle), true)
        }
        other => Err(format!("unknown C13 replay kind {:?}", other)),
    }
}
