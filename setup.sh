#!/usr/bin/env bash
# MANIFEST.setup_cmd: offline build of the engine from files on disk only.
set -eu
ROOT="$(cd "$(dirname "$0")" && pwd)"
export CARGO_NET_OFFLINE=true
cd "$ROOT/engine"
cargo build --offline --profile verif 2>&1 | tail -3
echo "setup ok"
