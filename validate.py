#!/usr/bin/env python3
import json, sys, glob
try:
    import jsonschema
except ImportError:
    sys.path.insert(0, glob.glob('/opt/veriftools/pyvenv/lib/python3*/site-packages')[0])
    import jsonschema
m=json.load(open('/verif/MANIFEST.json')); jsonschema.validate(m,json.load(open('/root/.vp/MANIFEST.schema.json'))); print('manifest valid; claims', [c['property_id'] for c in m['checks']])
es=json.load(open('/root/.vp/EVIDENCE.schema.json'))
for c in m['checks']:
    try:
        e=json.load(open('/verif/'+c['evidence_file'])); jsonschema.validate(e,es); print(c['property_id'],'evidence valid', e['tier'], e['level'], 'wall', round(e['wall_s'],1))
        assert e['level']==c['level_claimed']['category'], 'level mismatch'
    except Exception as ex:
        print(c['property_id'],'EVIDENCE PROBLEM', str(ex)[:300])
